package main

// Contracts: Gobra-style structured comments ("//@ ...") kept in comment-only files
// /repo/**/zz_contracts_verif.go (build tag verif) and in /verif/prelude/*.spec
// (assumed contracts of the standard library and of exported interfaces).

import (
	"fmt"
	"go/build/constraint"
	"os"
	"path/filepath"
	"regexp"
	"sort"
	"strings"
)

type Clause struct {
	Kind   string // requires ensures invariant decreases assert inv
	Props  []string
	Text   string
	Node   *SNode
	Source string // file:line
	Loop   int
	Callee string // for "at call"
}

func (c *Clause) Label() string { return strings.Join(strings.Fields(c.Text), " ") }

type Contract struct {
	Pkg      string
	Key      string // funcKey, e.g. "(*MemFile).Read"
	IsIface  bool   // contract of an interface method / external function (assumed)
	Mode     string
	Requires []*Clause
	Ensures  []*Clause
	Modifies []string
	HasMod   bool
	Loops    map[int][]*Clause // invariants and decreases per loop ordinal
	Lets     map[string]*SNode
	LetOrder []string
	AtCalls  []*Clause
	Flags    map[string]bool // event pure trusted inline noinline
	Source   string
	Result   []string // optional result names: "results r0 r1"
	Tmode    bool
}

func (c *Contract) FullKey() string { return c.Pkg + "." + c.Key }

type TypeSpec struct {
	Pkg       string
	Name      string
	Invs      []*Clause
	GuardedBy map[string]string // field -> mutex field
	Immutable map[string]bool
	Atomic    map[string]bool
	Confined  map[string]bool
}

type PredDef struct {
	Pkg    string
	Name   string
	Params []string
	PTypes []string
	Body   *SNode
	Text   string
}

type Specs struct {
	Funcs map[string]*Contract // by FullKey
	Types map[string]*TypeSpec // by pkg.Name
	Preds map[string]*PredDef  // by name (global)
	Files []string
}

var clauseHead = regexp.MustCompile(`^(requires|ensures|modifies|loop|let|at|mode|event|pure|trusted|inline|noinline|nilrecv|ranges|inv|guarded_by|immutable|atomic|confined|results|tmode)\b`)
var propsRe = regexp.MustCompile(`^\[([A-Za-z0-9, ]+)\]`)

func takeProps(s string) ([]string, string) {
	s = strings.TrimSpace(s)
	m := propsRe.FindStringSubmatch(s)
	if m == nil {
		return nil, s
	}
	var ps []string
	for _, p := range strings.Split(m[1], ",") {
		ps = append(ps, strings.TrimSpace(p))
	}
	return ps, strings.TrimSpace(s[len(m[0]):])
}

func LoadSpecs(files []string) (*Specs, error) {
	sp := &Specs{Funcs: map[string]*Contract{}, Types: map[string]*TypeSpec{}, Preds: map[string]*PredDef{}}
	sort.Strings(files)
	for _, f := range files {
		if err := sp.loadFile(f); err != nil {
			return nil, err
		}
		sp.Files = append(sp.Files, f)
	}
	return sp, nil
}

func findContractFiles(repo, prelude string, tags ...string) []string {
	tagSet := map[string]bool{}
	for _, t := range tags {
		for _, u := range strings.Split(t, ",") {
			tagSet[strings.TrimSpace(u)] = true
		}
	}
	var out []string
	filepath.Walk(repo, func(path string, info os.FileInfo, err error) error {
		if err != nil {
			return nil
		}
		if info.IsDir() && (info.Name() == ".git" || info.Name() == "test" || info.Name() == "mage") {
			return filepath.SkipDir
		}
		if !info.IsDir() && strings.HasPrefix(info.Name(), "zz_contracts") && strings.HasSuffix(info.Name(), "_verif.go") {
			// contract files follow the build constraints of the code they annotate
			if data, err := os.ReadFile(path); err == nil {
				first := strings.SplitN(string(data), "\n", 2)[0]
				if constraint.IsGoBuild(first) {
					if expr, err := constraint.Parse(first); err == nil && !expr.Eval(func(tag string) bool { return tagSet[tag] }) {
						return nil
					}
				}
			}
			out = append(out, path)
		}
		return nil
	})
	pre, _ := filepath.Glob(filepath.Join(prelude, "*.spec"))
	out = append(out, pre...)
	return out
}

func (sp *Specs) loadFile(path string) error {
	data, err := os.ReadFile(path)
	if err != nil {
		return err
	}
	pkg := ""
	var cur *Contract
	var curType *TypeSpec
	var last *string // text being continued
	var pending []func() error
	flush := func() error {
		for _, p := range pending {
			if err := p(); err != nil {
				return err
			}
		}
		pending = nil
		return nil
	}
	lines := strings.Split(string(data), "\n")
	for ln, raw := range lines {
		line := strings.TrimSpace(raw)
		if strings.HasPrefix(line, "package ") && pkg == "" {
			pkg = strings.TrimSpace(strings.TrimPrefix(line, "package "))
			continue
		}
		if !strings.HasPrefix(line, "//@") {
			continue
		}
		body := strings.TrimSpace(line[3:])
		if body == "" {
			continue
		}
		src := fmt.Sprintf("%s:%d", path, ln+1)
		switch {
		case strings.HasPrefix(body, "package "):
			pkg = strings.TrimSpace(body[8:])
			continue
		case strings.HasPrefix(body, "func ") || strings.HasPrefix(body, "iface ") || strings.HasPrefix(body, "extern "):
			if err := flush(); err != nil {
				return err
			}
			isIface := !strings.HasPrefix(body, "func ")
			key := strings.TrimSpace(body[strings.Index(body, " ")+1:])
			cpkg := pkg
			if isIface {
				// extern keys carry their own package: "io.CopyBuffer", "(avfs.VFSBase).OSType"
				cpkg = ""
			}
			cur = &Contract{Pkg: cpkg, Key: key, IsIface: isIface, Loops: map[int][]*Clause{}, Lets: map[string]*SNode{}, Flags: map[string]bool{}, Source: src}
			curType = nil
			last = nil
			fk := cur.FullKey()
			if isIface {
				fk = key
			}
			if prev, dup := sp.Funcs[fk]; dup {
				// a second block in ANOTHER file extends the first (clauses are appended); within one file it is an error
				if fileOf(prev.Source) == fileOf(src) {
					return fmt.Errorf("%s: duplicate contract for %s", src, fk)
				}
				cur = prev
				continue
			}
			sp.Funcs[fk] = cur
			continue
		case strings.HasPrefix(body, "type "):
			if err := flush(); err != nil {
				return err
			}
			name := strings.TrimSpace(body[5:])
			curType = &TypeSpec{Pkg: pkg, Name: name, GuardedBy: map[string]string{}, Immutable: map[string]bool{}, Atomic: map[string]bool{}, Confined: map[string]bool{}}
			sp.Types[pkg+"."+name] = curType
			cur = nil
			last = nil
			continue
		case strings.HasPrefix(body, "pred "):
			if err := flush(); err != nil {
				return err
			}
			pd, err := parsePred(pkg, body[5:], src)
			if err != nil {
				return err
			}
			sp.Preds[pd.Name] = pd
			cur, curType = nil, nil
			t := &pd.Text
			last = t
			pending = append(pending, func() error {
				n, err := ParseSpec(*t)
				if err != nil {
					return fmt.Errorf("%s: %v", src, err)
				}
				pd.Body = n
				return nil
			})
			continue
		}
		if !clauseHead.MatchString(body) {
			if last == nil {
				return fmt.Errorf("%s: continuation line without a clause: %q", src, body)
			}
			*last += " " + body
			continue
		}
		word := clauseHead.FindString(body)
		rest := strings.TrimSpace(body[len(word):])
		addClause := func(kind string, list *[]*Clause, props []string, text string, loop int, callee string) {
			cl := &Clause{Kind: kind, Props: props, Text: text, Source: src, Loop: loop, Callee: callee}
			*list = append(*list, cl)
			last = &cl.Text
			pending = append(pending, func() error {
				n, err := ParseSpec(cl.Text)
				if err != nil {
					return fmt.Errorf("%s: %v in %q", cl.Source, err, cl.Text)
				}
				cl.Node = n
				return nil
			})
		}
		if curType != nil {
			switch word {
			case "inv":
				props, text := takeProps(rest)
				addClause("inv", &curType.Invs, props, text, 0, "")
			case "guarded_by":
				i := strings.Index(rest, ":")
				if i < 0 {
					return fmt.Errorf("%s: guarded_by needs 'mutex: fields'", src)
				}
				mu := strings.TrimSpace(rest[:i])
				for _, f := range strings.Fields(rest[i+1:]) {
					curType.GuardedBy[f] = mu
				}
				last = nil
			case "immutable", "atomic", "confined":
				rest = strings.TrimPrefix(rest, ":")
				for _, f := range strings.Fields(rest) {
					switch word {
					case "immutable":
						curType.Immutable[f] = true
					case "atomic":
						curType.Atomic[f] = true
					case "confined":
						curType.Confined[f] = true
					}
				}
				last = nil
			default:
				return fmt.Errorf("%s: clause %q not allowed in a type block", src, word)
			}
			continue
		}
		if cur == nil {
			return fmt.Errorf("%s: clause outside func/type block: %q", src, body)
		}
		switch word {
		case "mode":
			cur.Mode = rest
			last = nil
		case "tmode":
			cur.Tmode = true
			last = nil
		case "event", "pure", "trusted", "inline", "noinline", "nilrecv", "ranges":
			cur.Flags[word] = true
			last = nil
		case "results":
			cur.Result = strings.Fields(rest)
			last = nil
		case "requires":
			props, text := takeProps(rest)
			addClause("requires", &cur.Requires, props, text, 0, "")
		case "ensures":
			props, text := takeProps(rest)
			addClause("ensures", &cur.Ensures, props, text, 0, "")
		case "modifies":
			cur.HasMod = true
			for _, m := range splitTop(rest, ',') {
				m = strings.TrimSpace(m)
				if m != "" && m != "nothing" {
					cur.Modifies = append(cur.Modifies, m)
				}
			}
			last = nil
		case "let":
			i := strings.Index(rest, ":=")
			if i < 0 {
				return fmt.Errorf("%s: let needs :=", src)
			}
			name := strings.TrimSpace(rest[:i])
			text := strings.TrimSpace(rest[i+2:])
			holder := &Clause{Text: text, Source: src}
			last = &holder.Text
			c := cur
			c.LetOrder = append(c.LetOrder, name)
			pending = append(pending, func() error {
				n, err := ParseSpec(holder.Text)
				if err != nil {
					return fmt.Errorf("%s: %v", src, err)
				}
				c.Lets[name] = n
				return nil
			})
		case "loop":
			// loop <k> invariant[..] e | loop <k> decreases e
			fs := strings.Fields(rest)
			if len(fs) < 2 {
				return fmt.Errorf("%s: bad loop clause", src)
			}
			var k int
			if _, err := fmt.Sscanf(fs[0], "%d", &k); err != nil {
				return fmt.Errorf("%s: bad loop ordinal", src)
			}
			rest2 := strings.TrimSpace(rest[len(fs[0]):])
			var kind string
			switch {
			case strings.HasPrefix(rest2, "invariant"):
				kind = "invariant"
				rest2 = rest2[len("invariant"):]
			case strings.HasPrefix(rest2, "decreases"):
				kind = "decreases"
				rest2 = rest2[len("decreases"):]
			case strings.HasPrefix(rest2, "step"):
				// checked at every back edge of the loop (what one complete iteration has done), never assumed
				kind = "step"
				rest2 = rest2[len("step"):]
			default:
				return fmt.Errorf("%s: loop clause must be invariant, decreases or step", src)
			}
			props, text := takeProps(rest2)
			l := cur.Loops[k]
			addClause(kind, &l, props, text, k, "")
			cur.Loops[k] = l
		case "at":
			// at call <callee> assert[..] e
			// at store <pkg.Type.field> assert[..] e   (a store into the map held by that field; key, val, themap are bound)
			isStore := strings.HasPrefix(rest, "store ")
			if !strings.HasPrefix(rest, "call ") && !isStore {
				return fmt.Errorf("%s: expected 'at call' or 'at store'", src)
			}
			if isStore {
				rest = "store:" + strings.TrimSpace(rest[6:])
			} else {
				rest = strings.TrimSpace(rest[5:])
			}
			i := strings.Index(rest, " assert")
			if i < 0 {
				return fmt.Errorf("%s: at call needs assert", src)
			}
			callee := strings.TrimSpace(rest[:i])
			props, text := takeProps(rest[i+len(" assert"):])
			addClause("assert", &cur.AtCalls, props, text, 0, callee)
		default:
			return fmt.Errorf("%s: unknown clause %q", src, word)
		}
	}
	return flush()
}

func parsePred(pkg, s, src string) (*PredDef, error) {
	// name(a T, b U) := body
	i := strings.Index(s, ":=")
	if i < 0 {
		return nil, fmt.Errorf("%s: pred needs :=", src)
	}
	head := strings.TrimSpace(s[:i])
	body := strings.TrimSpace(s[i+2:])
	lp := strings.Index(head, "(")
	if lp < 0 || !strings.HasSuffix(head, ")") {
		return nil, fmt.Errorf("%s: bad pred head", src)
	}
	pd := &PredDef{Pkg: pkg, Name: strings.TrimSpace(head[:lp]), Text: body}
	for _, p := range splitTop(head[lp+1:len(head)-1], ',') {
		fs := strings.Fields(strings.TrimSpace(p))
		if len(fs) == 0 {
			continue
		}
		pd.Params = append(pd.Params, fs[0])
		if len(fs) > 1 {
			pd.PTypes = append(pd.PTypes, strings.Join(fs[1:], " "))
		} else {
			pd.PTypes = append(pd.PTypes, "")
		}
	}
	return pd, nil
}

// splitTop splits s at sep occurring at bracket depth 0.
func splitTop(s string, sep byte) []string {
	var out []string
	depth := 0
	start := 0
	inStr := byte(0)
	for i := 0; i < len(s); i++ {
		c := s[i]
		if inStr != 0 {
			if c == '\\' {
				i++
			} else if c == inStr {
				inStr = 0
			}
			continue
		}
		switch c {
		case '"', '\'', '`':
			inStr = c
		case '(', '[', '{':
			depth++
		case ')', ']', '}':
			depth--
		default:
			if c == sep && depth == 0 {
				out = append(out, s[start:i])
				start = i + 1
			}
		}
	}
	out = append(out, s[start:])
	return out
}

// tmodeProps: properties whose clauses are about other threads interfering.  A clause tagged with
// these properties only is active in thread-modular mode (T-mode) only.
var tmodeProps = map[string]bool{"C06": true}

func tmodeOnly(cl *Clause) bool {
	if len(cl.Props) == 0 {
		return false
	}
	for _, p := range cl.Props {
		if !tmodeProps[p] {
			return false
		}
	}
	return true
}

func filterClauses(cls []*Clause) []*Clause {
	var out []*Clause
	for _, cl := range cls {
		if !tmodeOnly(cl) {
			out = append(out, cl)
		}
	}
	return out
}

// SView: the sequential-mode view of the contracts (T-mode-only clauses dropped).
func (s *Specs) SView() *Specs {
	n := &Specs{Funcs: map[string]*Contract{}, Types: map[string]*TypeSpec{}, Preds: s.Preds, Files: s.Files}
	for k, c := range s.Funcs {
		cc := *c
		cc.Requires = filterClauses(c.Requires)
		cc.Ensures = filterClauses(c.Ensures)
		cc.AtCalls = filterClauses(c.AtCalls)
		cc.Loops = map[int][]*Clause{}
		for li, cls := range c.Loops {
			cc.Loops[li] = filterClauses(cls)
		}
		n.Funcs[k] = &cc
	}
	for k, t := range s.Types {
		tt := *t
		tt.Invs = filterClauses(t.Invs)
		n.Types[k] = &tt
	}
	return n
}

func fileOf(src string) string {
	if i := strings.LastIndex(src, ":"); i > 0 {
		return src[:i]
	}
	return src
}
