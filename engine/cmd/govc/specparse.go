package main

// Parser of the contract expression language: Go expression syntax (parsed by go/parser)
// extended with  forall/exists x T, y U :: e ,  a ==> b ,  a <==> b ,  c ? a : b ,  e is *T .

import (
	"fmt"
	"go/ast"
	"go/parser"
	"regexp"
	"strings"
)

type SNode struct {
	Kind  string // "forall" "exists" "imp" "iff" "cond" "go"
	Vars  []string
	Types []string
	A     *SNode
	B     *SNode
	C     *SNode
	Go    ast.Expr
	Subs  map[string]*SNode // placeholders inside Go
	Text  string
}

var isRe = regexp.MustCompile(`([A-Za-z_][A-Za-z0-9_.]*(?:\([^()]*\)|\[[^\[\]]*\])*(?:\.[A-Za-z_][A-Za-z0-9_]*(?:\[[^\[\]]*\])?)*)\s+is\s+(\*?[A-Za-z_][A-Za-z0-9_.]*)`)

func ParseSpec(s string) (*SNode, error) {
	s = strings.TrimSpace(s)
	if s == "" {
		return nil, fmt.Errorf("empty expression")
	}
	for _, q := range []string{"forall", "exists"} {
		if strings.HasPrefix(s, q+" ") {
			i := indexTop(s, "::")
			if i < 0 {
				return nil, fmt.Errorf("%s without ::", q)
			}
			n := &SNode{Kind: q, Text: s}
			for _, b := range strings.Split(s[len(q):i], ",") {
				fs := strings.Fields(b)
				if len(fs) != 2 {
					return nil, fmt.Errorf("bad binder %q", b)
				}
				n.Vars = append(n.Vars, fs[0])
				n.Types = append(n.Types, fs[1])
			}
			body, err := ParseSpec(s[i+2:])
			if err != nil {
				return nil, err
			}
			n.A = body
			return n, nil
		}
	}
	if i := indexTop(s, "<==>"); i >= 0 {
		a, err := ParseSpec(s[:i])
		if err != nil {
			return nil, err
		}
		b, err := ParseSpec(s[i+4:])
		if err != nil {
			return nil, err
		}
		return &SNode{Kind: "iff", A: a, B: b, Text: s}, nil
	}
	if i := indexTopImp(s); i >= 0 {
		a, err := ParseSpec(s[:i])
		if err != nil {
			return nil, err
		}
		b, err := ParseSpec(s[i+3:])
		if err != nil {
			return nil, err
		}
		return &SNode{Kind: "imp", A: a, B: b, Text: s}, nil
	}
	if i := indexTop(s, " ? "); i >= 0 {
		j := indexTop(s[i+3:], " : ")
		if j < 0 {
			return nil, fmt.Errorf("? without :")
		}
		j += i + 3
		c, err := ParseSpec(s[:i])
		if err != nil {
			return nil, err
		}
		a, err := ParseSpec(s[i+3 : j])
		if err != nil {
			return nil, err
		}
		b, err := ParseSpec(s[j+3:])
		if err != nil {
			return nil, err
		}
		return &SNode{Kind: "cond", C: c, A: a, B: b, Text: s}, nil
	}
	// leaf: replace bracketed groups containing extended syntax by placeholders
	n := &SNode{Kind: "go", Subs: map[string]*SNode{}, Text: s}
	rewritten, err := n.lift(s)
	if err != nil {
		return nil, err
	}
	rewritten = isRe.ReplaceAllString(rewritten, "__is($1, $2)")
	e, err := parser.ParseExpr(rewritten)
	if err != nil {
		return nil, fmt.Errorf("cannot parse %q: %v", rewritten, err)
	}
	n.Go = e
	return n, nil
}

func hasExtended(s string) bool {
	return strings.Contains(s, "==>") || strings.Contains(s, "forall ") || strings.Contains(s, "exists ") || strings.Contains(s, " ? ")
}

// lift walks the top-level parenthesised groups of s; any comma-separated piece that
// uses extended syntax is parsed recursively and replaced by a placeholder identifier.
func (n *SNode) lift(s string) (string, error) {
	if !hasExtended(s) {
		return s, nil
	}
	var out strings.Builder
	i := 0
	for i < len(s) {
		c := s[i]
		if c == '"' || c == '\'' || c == '`' {
			j := i + 1
			for j < len(s) && s[j] != c {
				if s[j] == '\\' {
					j++
				}
				j++
			}
			out.WriteString(s[i:min(j+1, len(s))])
			i = j + 1
			continue
		}
		if c != '(' {
			out.WriteByte(c)
			i++
			continue
		}
		// find matching paren
		depth := 0
		j := i
		for ; j < len(s); j++ {
			if s[j] == '(' {
				depth++
			} else if s[j] == ')' {
				depth--
				if depth == 0 {
					break
				}
			}
		}
		if j >= len(s) {
			return "", fmt.Errorf("unbalanced parentheses in %q", s)
		}
		inner := s[i+1 : j]
		out.WriteByte('(')
		pieces := splitTop(inner, ',')
		for k, p := range pieces {
			if k > 0 {
				out.WriteByte(',')
			}
			if hasExtended(p) && (indexTop(p, "==>") >= 0 || strings.HasPrefix(strings.TrimSpace(p), "forall ") || strings.HasPrefix(strings.TrimSpace(p), "exists ") || indexTop(p, " ? ") >= 0) {
				sub, err := ParseSpec(p)
				if err != nil {
					return "", err
				}
				name := fmt.Sprintf("__sub%d", len(n.Subs))
				n.Subs[name] = sub
				out.WriteString(name)
			} else {
				r, err := n.lift(p)
				if err != nil {
					return "", err
				}
				out.WriteString(r)
			}
		}
		out.WriteByte(')')
		i = j + 1
	}
	return out.String(), nil
}

// indexTop finds tok at bracket depth 0 (outside string literals).
func indexTop(s, tok string) int {
	depth := 0
	inStr := byte(0)
	for i := 0; i < len(s); i++ {
		c := s[i]
		if inStr != 0 {
			if c == '\\' {
				i++
			} else if c == inStr {
				inStr = 0
			}
			continue
		}
		switch c {
		case '"', '\'', '`':
			inStr = c
			continue
		case '(', '[', '{':
			depth++
			continue
		case ')', ']', '}':
			depth--
			continue
		}
		if depth == 0 && strings.HasPrefix(s[i:], tok) {
			return i
		}
	}
	return -1
}

// indexTopImp finds "==>" at depth 0 that is not part of "<==>".
func indexTopImp(s string) int {
	off := 0
	for {
		i := indexTop(s[off:], "==>")
		if i < 0 {
			return -1
		}
		i += off
		if i > 0 && s[i-1] == '<' {
			off = i + 3
			continue
		}
		return i
	}
}
