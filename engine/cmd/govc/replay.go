package main

// Replay of failed obligations on the real code: the solver's model is turned into concrete
// inputs for a driver template (/verif/replay/*.go.tmpl) that is injected into the package
// under test with `go test -overlay` (nothing is written into /repo).

import (
	"encoding/json"
	"fmt"
	"os"
	"os/exec"
	"path/filepath"
	"regexp"
	"strings"
	"time"
)

type ReplayFile struct {
	Property     string              `json:"property"`
	Obligation   string              `json:"obligation"`
	Function     string              `json:"function"`
	Kind         string              `json:"kind"`
	Instances    []ReplayInstance    `json:"failed_instances"`
	Replay       *ReplayRun          `json:"replay,omitempty"`
	Note         string              `json:"note"`
}

type ReplayInstance struct {
	Path          string            `json:"path"`
	SolverOutputs map[string]string `json:"solver_outputs"`
	Model         map[string]string `json:"model,omitempty"`
	ModelSolver   string            `json:"model_solver,omitempty"`
	QueryFile     string            `json:"query_file,omitempty"`
}

type ReplayRun struct {
	Template   string            `json:"template"`
	Params     map[string]string `json:"params"`
	Cmd        string            `json:"cmd"`
	Reproduced bool              `json:"reproduced"`
	Output     string            `json:"output"`
}

type replayRule struct {
	Match    string            `json:"match"`    // regexp over the obligation id
	Template string            `json:"template"` // file under /verif/replay
	Pkg      string            `json:"pkg"`      // package directory relative to /repo
	Tags     string            `json:"tags"`
	Params   map[string]string `json:"params"` // name -> model term pattern or literal "=value"
	Race     bool              `json:"race"`   // run under the race detector; a DATA RACE report counts as reproduced
}

func safeName(s string) string {
	re := regexp.MustCompile(`[^A-Za-z0-9_.-]+`)
	n := re.ReplaceAllString(s, "_")
	if len(n) > 150 {
		n = n[:150]
	}
	return n
}

// writeReplay writes the replay file of a failed obligation and tries to reproduce it.
func writeReplay(root, dir, prop string, r *OblResult, cfg *PropConfig) (string, bool) {
	rf := &ReplayFile{Property: prop, Obligation: r.ID, Function: r.Fn, Kind: r.Kind}
	for i, fi := range r.Failed {
		if i >= 3 {
			break
		}
		ri := ReplayInstance{Path: fi.Obl.Path, SolverOutputs: fi.Outputs}
		if fi.Query != "" {
			qf := filepath.Join(dir, safeName(r.ID)+fmt.Sprintf(".%d.smt2", i))
			os.WriteFile(qf, []byte(fi.Query), 0o644)
			ri.QueryFile = qf
			terms := modelTerms(fi.Query)
			if m, who := getModel(fi.Query, terms, 3000); m != nil {
				ri.Model = m
				ri.ModelSolver = who
			}
		}
		rf.Instances = append(rf.Instances, ri)
	}
	reproduced := false
	rules := loadReplayRules(root)
	for _, rule := range rules {
		re, err := regexp.Compile(rule.Match)
		if err != nil || !re.MatchString(r.ID) {
			continue
		}
		insts := rf.Instances
		if len(insts) == 0 {
			insts = []ReplayInstance{{}} // no solver model (e.g. an obligation that is no longer generated): the driver runs with its defaults
		}
		for _, inst := range insts {
			run := runReplay(root, rule, re.FindStringSubmatch(r.ID), inst)
			if run == nil {
				continue
			}
			rf.Replay = run
			if run.Reproduced {
				reproduced = true
				break
			}
		}
		break
	}
	if rf.Replay == nil {
		rf.Note = "no replay driver for this obligation; the obligation was discharged on the reviewed tree and is not discharged now (solver outputs attached)"
	} else if !reproduced {
		rf.Note = "the replay driver ran but did not reproduce a failure on the real code; the obligation is still undischarged (solver outputs attached)"
	} else {
		rf.Note = "reproduced on the real code by the replay driver"
	}
	path := filepath.Join(dir, safeName(r.ID)+".json")
	data, _ := json.MarshalIndent(rf, "", " ")
	os.WriteFile(path, append(data, '\n'), 0o644)
	return path, reproduced
}

// modelTerms: the parameter constants (v_p.*) declared in a query.
func modelTerms(q string) []string {
	// only constants that occur in the assertions of this path
	body := q
	if i := strings.LastIndex(q, "(declare-"); i >= 0 {
		if j := strings.Index(q[i:], "\n"); j >= 0 {
			body = q[i+j:]
		}
	}
	re := regexp.MustCompile(`\(declare-fun (v_p\.[^ ]+) \(\) ([^\n]+)\)`)
	var out []string
	for _, m := range re.FindAllStringSubmatch(q, -1) {
		out = append(out, m[1])
	}
	re2 := regexp.MustCompile(`\(declare-fun (v_ret\.[^ ]+) \(\) (Iface|Int|Bool)\)`)
	for _, m := range re2.FindAllStringSubmatch(q, -1) {
		if strings.Contains(body, m[1]+" ") || strings.Contains(body, m[1]+")") {
			out = append(out, m[1])
		}
	}
	return out
}

func loadReplayRules(root string) []replayRule {
	var rules []replayRule
	data, err := os.ReadFile(filepath.Join(root, "replay", "rules.json"))
	if err != nil {
		return nil
	}
	json.Unmarshal(data, &rules)
	return rules
}

// runReplay instantiates the template with parameters taken from the model and runs it.
func runReplay(root string, rule replayRule, groups []string, inst ReplayInstance) *ReplayRun {
	tmpl, err := os.ReadFile(filepath.Join(root, "replay", rule.Template))
	if err != nil {
		return nil
	}
	params := map[string]string{}
	for name, src := range rule.Params {
		switch {
		case strings.HasPrefix(src, "="):
			params[name] = src[1:]
		case strings.HasPrefix(src, "$"):
			var k int
			fmt.Sscanf(src[1:], "%d", &k)
			if k < len(groups) {
				params[name] = groups[k]
			}
		default:
			// model term whose name matches the pattern
			re, err := regexp.Compile(src)
			if err != nil {
				continue
			}
			for t, v := range inst.Model {
				if re.MatchString(t) {
					params[name] = smtValueToGo(v)
				}
			}
		}
	}
	body := string(tmpl)
	for k, v := range params {
		body = strings.ReplaceAll(body, "{{"+k+"}}", v)
	}
	// "{{name|default}}": the parameter if the model/rule provided it, else the default
	re := regexp.MustCompile(`\{\{([A-Za-z0-9_]+)\|([^}]*)\}\}`)
	body = re.ReplaceAllStringFunc(body, func(m string) string {
		sm := re.FindStringSubmatch(m)
		if v, ok := params[sm[1]]; ok {
			return v
		}
		return sm[2]
	})
	if strings.HasPrefix(rule.Tags, "$") {
		var k int
		fmt.Sscanf(rule.Tags[1:], "%d", &k)
		rule.Tags = ""
		if k < len(groups) {
			rule.Tags = groups[k]
		}
	}
	return execReplay(root, rule, body, params)
}

func execReplay(root string, rule replayRule, body string, params map[string]string) *ReplayRun {
	scratch, err := os.MkdirTemp("", "verif-replay-")
	if err != nil {
		return nil
	}
	defer os.RemoveAll(scratch)
	testFile := filepath.Join(scratch, "zz_verif_replay_test.go")
	os.WriteFile(testFile, []byte(body), 0o644)
	pkgDir := filepath.Join(repoDir, rule.Pkg)
	ov := map[string]any{"Replace": map[string]string{filepath.Join(pkgDir, "zz_verif_replay_test.go"): testFile}}
	ovData, _ := json.Marshal(ov)
	ovFile := filepath.Join(scratch, "overlay.json")
	os.WriteFile(ovFile, ovData, 0o644)
	args := []string{"test", "-overlay", ovFile, "-vet=off", "-count=1", "-v", "-timeout", "100s", "-run", "^TestVerifReplay$"}
	if rule.Tags != "" {
		args = append(args, "-tags", rule.Tags)
	}
	if rule.Race {
		args = append(args, "-race")
	}
	args = append(args, ".")
	cmd := exec.Command("go", args...)
	cmd.Dir = pkgDir
	cmd.Env = append(os.Environ(), "GOFLAGS=-mod=mod", "GOPROXY=off", "GOSUMDB=off", "GOTOOLCHAIN=local")
	done := make(chan struct{})
	var out []byte
	go func() {
		out, _ = cmd.CombinedOutput()
		close(done)
	}()
	select {
	case <-done:
	case <-time.After(120 * time.Second):
		if cmd.Process != nil {
			cmd.Process.Kill()
		}
		<-done
	}
	o := string(out)
	if len(o) > 4000 {
		o = o[:4000]
	}
	run := &ReplayRun{Template: rule.Template, Params: params, Cmd: "go " + strings.Join(args, " ") + " (in " + pkgDir + ")", Output: o}
	// the driver prints REPRODUCED when the real code misbehaves as the failed obligation says
	run.Reproduced = strings.Contains(o, "REPRODUCED") || (rule.Race && strings.Contains(o, "WARNING: DATA RACE"))
	return run
}

// smtValueToGo renders an SMT value as a Go literal where that is meaningful.
func smtValueToGo(v string) string {
	v = strings.TrimSpace(v)
	if strings.HasPrefix(v, "(- ") {
		return "-" + strings.TrimSuffix(strings.TrimPrefix(v, "(- "), ")")
	}
	if strings.HasPrefix(v, "#x") {
		return "0x" + v[2:]
	}
	if strings.HasPrefix(v, "#b") {
		return "0b" + v[2:]
	}
	if strings.HasPrefix(v, "(_ bv") {
		var n string
		var w int
		fmt.Sscanf(v, "(_ bv%s %d)", &n, &w)
		return n
	}
	return v
}
