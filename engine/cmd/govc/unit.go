package main

// A verification unit = one function under contract: entry assumptions, execution,
// postconditions, frame, loop invariants, vacuity probes.

import (
	"fmt"
	"go/types"
	"sort"
	"strings"

	"golang.org/x/tools/go/ssa"
)

type UnitResult struct {
	Key       string
	Scripts   []*PathScript
	Preamble  string
	Decls     []string
	Paths     int
	Overflow  bool
	Aborted   map[string]int
	Trusted   []string
	Unmodel   []string
	Notes     []string
	BV        bool
	ClauseUse map[string]int // clause label -> obligations generated
	Clauses   []*Clause
}

// typeSpecOf returns the type-level spec for the struct a pointer type points to.
func (x *Exec) typeSpecOf(t types.Type) (*TypeSpec, types.Type) {
	pt, ok := types.Unalias(t).Underlying().(*types.Pointer)
	if !ok {
		return nil, nil
	}
	n, ok := types.Unalias(pt.Elem()).(*types.Named)
	if !ok || n.Obj().Pkg() == nil {
		return nil, nil
	}
	ts := x.specs.Types[n.Obj().Pkg().Name()+"."+n.Obj().Name()]
	return ts, pt.Elem()
}

// typeInvTerms evaluates inv clauses of the type of v (a pointer) with self := v.
func (x *Exec) typeInvTerms(st *State, v Val, t types.Type, pkg *types.Package, assume ...bool) ([]Term, []*Clause) {
	ts, _ := x.typeSpecOf(t)
	if ts == nil {
		return nil, nil
	}
	var out []Term
	var cls []*Clause
	for _, cl := range ts.Invs {
		env := &SpecEnv{x: x, st: st.view(), vars: map[string]Val{}, pkg: pkg}
		vv := v
		vv.Typ = t
		env.vars["self"] = vv
		env.old = env
		env.assume = len(assume) > 0 && assume[0]
		tm, err := env.EvalBool(cl.Node)
		if err != nil {
			x.abort("type invariant of %s: %v", ts.Name, err)
		}
		out = append(out, Implies(Not(Eq(v.T, TNull)), tm))
		cls = append(cls, cl)
	}
	return out, cls
}

func VerifyUnit(prog *Program, specs *Specs, fn *ssa.Function, ct *Contract, opts UnitOpts) *UnitResult {
	x := NewExec(prog, specs, fn, ct)
	if opts.MaxPaths > 0 {
		x.maxPaths = opts.MaxPaths
	}
	x.assumeFalseAtExit = opts.ProbeExit
	if opts.Tmode {
		x.tmode = true
	}
	x.known = opts.Known
	x.extraProp = opts.ExtraProp
	st := &State{x: x, regs: map[ssa.Value]Val{}, cells: map[*Cell]Val{}, heap: map[string]Term{}, defers: map[int][]deferred{}, fresh: map[string]bool{}, loopSnap: map[string][]Term{}, lockSnapNames: map[string][]string{}, loopFrame: map[string][]string{}}
	fr := x.newFrame(fn, nil)
	fr.top = true
	x.topFrame = fr
	res := &UnitResult{Key: fullKey(fn), Aborted: x.aborted, ClauseUse: map[string]int{}}
	x.guard(st, func() {
		// parameters: unconstrained values of their types
		var pvals []Val
		for _, p := range fn.Params {
			v, inv := x.enc.freshVal(p.Type(), "p."+p.Name())
			v.Typ = p.Type()
			st.assumeAll(inv)
			st.assumeLoaded(p.Type(), v)
			pvals = append(pvals, v)
		}
		x.bindParams(st, fn, pvals)
		x.entryRegs = map[ssa.Value]Val{}
		for k, v := range st.regs {
			x.entryRegs[k] = v
		}
		if fn.Signature.Recv() != nil && len(pvals) > 0 && pvals[0].K == VTerm && pvals[0].T.Sort == SRef && (ct == nil || !ct.Flags["nilrecv"]) {
			// methods of non-handle types are never called on a nil receiver (handles declare nilrecv)
			st.assume(Not(Eq(pvals[0].T, TNull)))
		}
		for _, fv := range fn.FreeVars {
			x.abort("function with free variable %s cannot be a unit", fv.Name())
		}
		// type invariants of pointer parameters are assumed on entry
		pkg := fnPkg(fn)
		for i, p := range fn.Params {
			tms, _ := x.typeInvTerms(st, pvals[i], p.Type(), pkg, true)
			st.assumeAll(tms)
		}
		x.collectEntryHeld(fr, st)
		env := x.specEnv(fr, st, nil)
		if ct != nil {
			for _, cl := range ct.Requires {
				t, err := env.EvalAssume(cl.Node)
				if err != nil {
					x.abort("requires: %v", err)
				}
				st.assume(t)
			}
		}
		if ct != nil && ct.Flags["pure"] && fn.Signature.Recv() == nil {
			goal := TTrue
			label := "the result depends on the arguments only"
			if why := x.checkPureBody(fn); why != "" {
				goal = TFalse
				label += " (" + why + ")"
			}
			st.check(x.newObl(fn, "pure", "the result depends on the arguments only", x.safetyProps(), ""), goal)
			_ = label
		}
		x.runBody(fr, st, func(st2 *State, results []Val) {
			x.atExit(fr, st2, results, pvals)
		})
	})
	res.Scripts = x.scripts
	res.Preamble = x.enc.Preamble()
	res.Decls = x.enc.decls
	res.Paths = x.nPaths
	res.Overflow = x.overflow
	res.Trusted = sortedKeys(x.enc.trusted)
	res.Unmodel = sortedKeys(x.enc.unmodel)
	res.Notes = x.notes
	res.BV = x.enc.BV
	if ct != nil {
		all := append([]*Clause{}, ct.Ensures...)
		all = append(all, ct.AtCalls...)
		for _, ls := range ct.Loops {
			all = append(all, ls...)
		}
		res.Clauses = all
		for _, cl := range all {
			res.ClauseUse[cl.Kind+" "+cl.Label()] = x.clauseUsed[cl]
		}
	}
	return res
}

type UnitOpts struct {
	MaxPaths  int
	ProbeExit bool
	Tmode     bool // thread-modular mode for the whole unit
	Known     []*KnownFinding
	ExtraProp string // property whose sweep this unit belongs to: its safety obligations serve that property too
}

// atExit: postconditions, type invariants of the receiver, frame, lock balance.
func (x *Exec) atExit(fr *Frame, st *State, results []Val, pvals []Val) {
	fn := fr.fn
	ct := fr.contract
	st.comment("exit")
	if x.assumeFalseAtExit {
		o := x.newObl(fn, "cover", "some return is reachable", nil, "")
		st.check(o, TFalse)
		x.finish(st, "return")
		return
	}
	x.locksBalanced(fr, st)
	env := x.specEnv(fr, st, nil)
	bindResults(env, fn.Signature, ct, results)
	env.old.vars = env.vars
	if ct != nil {
		for _, cl := range ct.Ensures {
			t, err := env.EvalBool(cl.Node)
			if err != nil {
				x.abort("ensures %q: %v", cl.Label(), err)
			}
			x.clauseUsed[cl]++
			o := x.newObl(fn, "post", cl.Label(), cl.Props, cl.Source)
			st.checkNoAssume(o, t)
		}
	}
	// type invariants of pointer parameters (receiver) must hold again
	pkg := fnPkg(fn)
	for i, p := range fn.Params {
		tms, cls := x.typeInvTerms(st, pvals[i], p.Type(), pkg)
		for j, tm := range tms {
			x.clauseUsed[cls[j]]++
			o := x.newObl(fn, "inv-preserved", typeName(p.Type())+": "+cls[j].Label(), cls[j].Props, cls[j].Source)
			st.checkNoAssume(o, tm)
		}
	}
	// type invariants of returned pointers of module types (constructors)
	for i, r := range results {
		rt := fn.Signature.Results().At(i).Type()
		if r.K != VTerm || r.T.Sort != SRef {
			continue
		}
		tms, cls := x.typeInvTerms(st, r, rt, pkg)
		for j, tm := range tms {
			x.clauseUsed[cls[j]]++
			o := x.newObl(fn, "inv-established", typeName(rt)+": "+cls[j].Label(), cls[j].Props, cls[j].Source)
			st.checkNoAssume(o, tm)
		}
	}
	if ct != nil && ct.HasMod {
		x.checkFrame(fr, st, env, ct)
	}
	x.finish(st, "return")
}

// checkNoAssume emits a check without assuming the goal afterwards (independent postconditions).
func (st *State) checkNoAssume(o *Obligation, goal Term) {
	goal = st.x.applyKnown(o, goal)
	o.Path = strings.Join(st.path, ">")
	o.Goal = goal.S
	st.items = append(st.items, Item{Kind: ItCheck, Text: goal.S, Obl: o})
}

// arrEqOnOld: cur and old agree on every object allocated in the old state.
func (x *Exec) arrEqOnOld(old *State, name string, cur, oldT Term) Term {
	idx := idxSort(cur.Sort)
	if idx != SRef {
		return Eq(cur, oldT)
	}
	alloc := old.hgetPure("alloc", SArr(SRef, SBool))
	return Term{fmt.Sprintf("(forall ((r!f Ref)) (! (=> (select %s (rootof r!f)) (= (select %s r!f) (select %s r!f))) :pattern ((select %s r!f))))", alloc.S, cur.S, oldT.S, cur.S), SBool}
}

// checkFrame: every heap array written on this path is unchanged outside the modifies clause,
// for the objects that existed at entry.
func (x *Exec) checkFrame(fr *Frame, st *State, env *SpecEnv, ct *Contract) {
	// allowed locations: array name -> list of index terms (nil = whole array)
	allowed := map[string][]Term{}
	whole := map[string]bool{}
	all := false
	for _, m := range ct.Modifies {
		m = strings.TrimSpace(m)
		if m == "*" {
			all = true
			continue
		}
		x.frameLoc(fr, st, env, m, allowed, whole)
	}
	if all {
		return
	}
	names := sortedKeys(st.heap)
	for _, name := range names {
		if strings.HasPrefix(name, "L.") || name == "alloc" {
			continue
		}
		sort_ := x.heapSorts[name]
		cur := st.heap[name]
		init := st.initHeap(name, sort_)
		if cur.S == init.S || whole[name] {
			continue
		}
		if idxSort(sort_) != SRef {
			continue
		}
		alloc0 := st.initHeap("alloc", SArr(SRef, SBool))
		var excl []Term
		for _, t := range allowed[name] {
			excl = append(excl, Not(Eq(Term{"r!f", SRef}, t)))
		}
		cond := And(append([]Term{Select(alloc0, app(SRef, "rootof", Term{"r!f", SRef}))}, excl...)...)
		goal := Term{fmt.Sprintf("(forall ((r!f Ref)) (=> %s (= (select %s r!f) (select %s r!f))))", cond.S, cur.S, init.S), SBool}
		props := []string{"C05"}
		if len(ct.Ensures) > 0 {
			props = nil
			seen := map[string]bool{}
			for _, cl := range ct.Ensures {
				for _, p := range cl.Props {
					if !seen[p] {
						seen[p] = true
						props = append(props, p)
					}
				}
			}
			sort.Strings(props)
		}
		o := x.newObl(fr.fn, "frame", name, props, ct.Source)
		st.checkNoAssume(o, goal)
	}
}

func (x *Exec) frameLoc(fr *Frame, st *State, env *SpecEnv, m string, allowed map[string][]Term, whole map[string]bool) {
	if strings.HasSuffix(m, "[*]") {
		n, err := ParseSpec(strings.TrimSuffix(m, "[*]"))
		if err != nil {
			x.abort("modifies %s: %v", m, err)
		}
		v, err := env.old.EvalVal(n)
		if err != nil {
			x.abort("modifies %s: %v", m, err)
		}
		switch u := types.Unalias(v.Typ).Underlying().(type) {
		case *types.Slice:
			names, _ := st.elemArrs(u.Elem())
			for _, nm := range names {
				allowed[nm] = append(allowed[nm], v.Parts[0].T)
			}
		case *types.Map:
			dom, _, vals, _, ln := st.mapArrs(u)
			for _, nm := range append([]string{dom, ln}, vals...) {
				allowed[nm] = append(allowed[nm], v.T)
			}
		}
		return
	}
	i := strings.LastIndex(m, ".")
	if i < 0 {
		x.abort("modifies %s", m)
	}
	lhs, fname := m[:i], m[i+1:]
	if env.pkg != nil {
		if _, isVar := env.vars[lhs]; !isVar {
			if tn, ok := env.pkg.Scope().Lookup(lhs).(*types.TypeName); ok {
				base := "F." + typeName(tn.Type()) + "." + fname
				for name := range x.heapSorts {
					if name == base || strings.HasPrefix(name, base+".") {
						whole[name] = true
					}
				}
				return
			}
		}
	}
	n, err := ParseSpec(lhs)
	if err != nil {
		x.abort("modifies %s: %v", m, err)
	}
	ov, err := env.old.EvalVal(n)
	if err != nil {
		x.abort("modifies %s: %v", m, err)
	}
	pt, ok := types.Unalias(ov.Typ).Underlying().(*types.Pointer)
	if !ok {
		x.abort("modifies %s: owner is not a pointer", m)
	}
	x.frameField(st, pt.Elem(), ov.T, fname, allowed)
}

func (x *Exec) frameField(st *State, structT types.Type, ref Term, fname string, allowed map[string][]Term) {
	obj, index, _ := types.LookupFieldOrMethod(types.NewPointer(structT), true, nil, fname)
	if obj == nil {
		for _, pp := range x.prog.Pkgs {
			if obj, index, _ = types.LookupFieldOrMethod(types.NewPointer(structT), true, pp.Types, fname); obj != nil {
				break
			}
		}
	}
	if obj == nil {
		x.abort("modifies: no field %s in %s", fname, structT)
	}
	cur := structT
	r := ref
	for j, fi := range index {
		sstruct := types.Unalias(cur).Underlying().(*types.Struct)
		f := sstruct.Field(fi)
		if j == len(index)-1 {
			if isStructType(f.Type()) && !isMutexType(f.Type()) {
				sub := st.subRef(cur, f, r)
				ss := types.Unalias(f.Type()).Underlying().(*types.Struct)
				for q := 0; q < ss.NumFields(); q++ {
					x.frameField(st, f.Type(), sub, ss.Field(q).Name(), allowed)
				}
				return
			}
			base := fieldArrName(cur, f)
			for kk := range x.enc.sortsOf(f.Type()) {
				nm := compName(base, kk)
				allowed[nm] = append(allowed[nm], r)
			}
			return
		}
		r = st.subRef(cur, f, r)
		cur = f.Type()
	}
}

// ---------------------------------------------------------------------------
// Loops

func (x *Exec) loopClauses(fr *Frame, li *loopInfo, kind string) []*Clause {
	if fr.contract == nil {
		return nil
	}
	var out []*Clause
	for _, cl := range fr.contract.Loops[li.ordinal] {
		if cl.Kind == kind {
			out = append(out, cl)
		}
	}
	return out
}

func (x *Exec) loopEnv(fr *Frame, st *State, lis ...*loopInfo) *SpecEnv {
	env := x.specEnv(fr, st, nil)
	// source variables by name: the SSA value that held the variable when it was last mentioned
	prefix := fmt.Sprintf("%d.", fr.id)
	for key, sv := range st.names {
		if !strings.HasPrefix(key, prefix) {
			continue
		}
		name := key[len(prefix):]
		if _, isParam := env.vars[name]; isParam {
			// a parameter that was reassigned: the current value wins
		}
		var val Val
		switch c := sv.(type) {
		case *ssa.Const:
			val = x.val(st, c)
		default:
			r, ok := st.regs[sv]
			if !ok {
				continue
			}
			val = r
		}
		if val.K == VCellPtr || val.K == VFieldPtr || val.K == VElemPtr || val.K == VClosure || val.K == VFunc {
			continue
		}
		val.Typ = sv.Type()
		env.vars[name] = val
	}
	// loop-carried variables: phis and cells
	for v, val := range st.regs {
		switch vv := v.(type) {
		case *ssa.Phi:
			// phis of other loops may share the name: only a name not bound yet is taken from a phi here
			if vv.Parent() == fr.fn && vv.Comment != "" {
				if _, taken := env.vars[vv.Comment]; !taken {
					val.Typ = vv.Type()
					env.vars[vv.Comment] = val
				}
			}
		case *ssa.Alloc:
			if vv.Parent() == fr.fn && vv.Comment != "" && val.K == VCellPtr {
				if cv, ok := st.cells[val.Cell]; ok {
					cv.Typ = val.Cell.Typ
					env.vars[vv.Comment] = cv
				}
			}
			if vv.Parent() == fr.fn && vv.Comment != "" && val.K == VTerm && val.T.Sort == SRef {
				// address-taken struct variable: the name denotes the object (fields via out.f)
				val.Typ = vv.Type()
				env.vars[vv.Comment] = val
			}
		}
	}
	// the phis of the loop the clause belongs to win over everything else
	for _, li := range lis {
		for _, in := range li.head.Instrs {
			phi, ok := in.(*ssa.Phi)
			if !ok {
				break
			}
			if val, ok := st.regs[phi]; ok && phi.Comment != "" {
				val.Typ = phi.Type()
				env.vars[phi.Comment] = val
			}
		}
	}
	return env
}

func (x *Exec) checkLoopInv(fr *Frame, st *State, li *loopInfo, kind string) {
	env := x.loopEnv(fr, st, li)
	for _, cl := range x.loopClauses(fr, li, "invariant") {
		t, err := env.EvalBool(cl.Node)
		if err != nil {
			x.abort("loop %d invariant: %v", li.ordinal, err)
		}
		x.clauseUsed[cl]++
		props := cl.Props
		if len(props) == 0 {
			props = []string{"C07"}
		}
		o := x.newObl(fr.fn, kind, fmt.Sprintf("loop %d: %s", li.ordinal, cl.Label()), props, cl.Source)
		st.check(o, t)
	}
}

// checkLoopStep: `loop k step e` clauses say what every complete iteration has done (typically over
// the event trace: called(...)); they are checked when a back edge is taken.
func (x *Exec) checkLoopStep(fr *Frame, st *State, li *loopInfo) {
	cls := x.loopClauses(fr, li, "step")
	if len(cls) == 0 {
		return
	}
	env := x.loopEnv(fr, st, li)
	for _, cl := range cls {
		t, err := env.EvalBool(cl.Node)
		if err != nil {
			x.abort("loop %d step: %v", li.ordinal, err)
		}
		x.clauseUsed[cl]++
		props := cl.Props
		if len(props) == 0 {
			props = []string{"C07"}
		}
		st.check(x.newObl(fr.fn, "loop-step", fmt.Sprintf("loop %d: %s", li.ordinal, cl.Label()), props, cl.Source), t)
	}
}

func (x *Exec) assumeLoopInv(fr *Frame, st *State, li *loopInfo) {
	env := x.loopEnv(fr, st, li)
	for _, cl := range x.loopClauses(fr, li, "invariant") {
		t, err := env.EvalAssume(cl.Node)
		if err != nil {
			x.abort("loop %d invariant: %v", li.ordinal, err)
		}
		st.assume(t)
	}
}

func (x *Exec) snapVariant(fr *Frame, st *State, li *loopInfo) {
	env := x.loopEnv(fr, st, li)
	var snap []Term
	for _, cl := range x.loopClauses(fr, li, "decreases") {
		for _, part := range splitTop(cl.Text, ',') {
			n, err := ParseSpec(part)
			if err != nil {
				x.abort("decreases: %v", err)
			}
			v, err := env.EvalVal(n)
			if err != nil {
				x.abort("decreases: %v", err)
			}
			snap = append(snap, v.T)
		}
	}
	st.loopSnap[li.key] = snap
}

func (x *Exec) frameInvTerm(st *State, name string) Term {
	sort_ := x.heapSorts[name]
	cur := st.hget(name, sort_)
	init := st.initHeap(name, sort_)
	alloc0 := st.initHeap("alloc", SArr(SRef, SBool))
	return Term{fmt.Sprintf("(forall ((r!l Ref)) (! (=> (select %s (rootof r!l)) (= (select %s r!l) (select %s r!l))) :pattern ((select %s r!l))))", alloc0.S, cur.S, init.S, cur.S), SBool}
}

// modifiesMentions: the unit's modifies clause allows (part of) this array to change.
func (x *Exec) modifiesMentions(name string) bool {
	if x.contract == nil {
		return true
	}
	for _, m := range x.contract.Modifies {
		m = strings.TrimSpace(m)
		if m == "*" {
			return true
		}
		f := m
		if i := strings.LastIndex(m, "."); i >= 0 {
			f = m[i+1:]
		}
		f = strings.TrimSuffix(f, "[*]")
		if strings.HasSuffix(name, "."+f) || strings.Contains(name, "."+f+".") || strings.HasSuffix(m, "[*]") {
			return true
		}
	}
	return false
}

func (x *Exec) checkLoopFrame(fr *Frame, st *State, li *loopInfo) {
	for _, name := range st.loopFrame[li.key] {
		o := x.newObl(fr.fn, "frame-loop", fmt.Sprintf("loop %d: %s", li.ordinal, name), x.safetyProps(), "")
		st.check(o, x.frameInvTerm(st, name))
	}
}

// checkLoopLocks: at a back edge the ghost lock state equals the one at loop entry.
func (x *Exec) checkLoopLocks(fr *Frame, st *State, li *loopInfo) {
	names, snapped := st.lockSnapNames[li.key]
	if !snapped {
		// no lock operation in the loop body (no snapshot was taken at the head): nothing to balance.
		// (Comparing with the initial state here was wrong: a lock held across the loop made the check
		// fail, and the assumed goal then made everything checked after it at the back edge vacuous.)
		return
	}
	snap := st.loopSnap[li.key+"#locks"]
	seen := map[string]bool{}
	for i, name := range names {
		seen[name] = true
		cur := st.hget(name, x.heapSorts[name])
		o := x.newObl(fr.fn, "lock-balance-loop", fmt.Sprintf("loop %d: %s", li.ordinal, name), x.safetyProps(), "")
		st.check(o, Eq(cur, snap[i]))
	}
	// lock arrays first touched inside the loop body: must be back to "not held"
	for name := range x.heapSorts {
		if strings.HasPrefix(name, "L.") && !seen[name] {
			cur := st.hget(name, x.heapSorts[name])
			init := st.initHeap(name, x.heapSorts[name])
			o := x.newObl(fr.fn, "lock-balance-loop", fmt.Sprintf("loop %d: %s", li.ordinal, name), x.safetyProps(), "")
			st.check(o, Eq(cur, init))
		}
	}
}

func (x *Exec) checkVariant(fr *Frame, st *State, li *loopInfo) {
	cls := x.loopClauses(fr, li, "decreases")
	if len(cls) == 0 {
		return
	}
	env := x.loopEnv(fr, st, li)
	snap := st.loopSnap[li.key]
	var cur []Term
	for _, cl := range cls {
		for _, part := range splitTop(cl.Text, ',') {
			n, _ := ParseSpec(part)
			v, err := env.EvalVal(n)
			if err != nil {
				x.abort("decreases: %v", err)
			}
			cur = append(cur, v.T)
		}
		x.clauseUsed[cl]++
	}
	if len(cur) != len(snap) {
		x.abort("decreases: shape changed")
	}
	// lexicographic decrease, bounded below by 0
	var goal Term = TFalse
	for i := len(cur) - 1; i >= 0; i-- {
		dec := And(app(SBool, "<", cur[i], snap[i]), app(SBool, ">=", snap[i], IntLit(0)))
		goal = Or(dec, And(Eq(cur[i], snap[i]), goal))
	}
	props := cls[0].Props
	if len(props) == 0 {
		props = []string{"C07"}
	}
	o := x.newObl(fr.fn, "variant", fmt.Sprintf("loop %d: %s", li.ordinal, cls[0].Label()), props, cls[0].Source)
	st.check(o, goal)
}

// havocLoop forgets everything the loop body may modify: header phis, cells stored in the
// loop, heap arrays written in the loop (everything if the body makes an unmodelled call).
func (x *Exec) havocLoop(fr *Frame, st *State, li *loopInfo) {
	for _, in := range li.head.Instrs {
		phi, ok := in.(*ssa.Phi)
		if !ok {
			break
		}
		v, inv := x.enc.freshVal(phi.Type(), "loop."+phi.Comment)
		v.Typ = phi.Type()
		st.regs[phi] = v
		x.namePhi(fr, st, phi)
		st.assumeAll(inv)
		st.assumeLoaded(phi.Type(), v)
		if phi.Comment == "rangeindex" && v.K == VTerm && v.T.Sort == SInt {
			// compiler-generated index of a range loop: starts at -1 and only grows
			st.assume(app(SBool, ">=", v.T, IntLit(-1)))
			st.assume(app(SBool, "<=", v.T, IntLit(1<<48))) // bounded by the length of the collection
		}
	}
	ws := x.loopWrites(fr, li)
	if len(ws.freeVars) > 0 {
		ws.all = true
	}
	var before map[string]Term
	if x.contract != nil && x.contract.HasMod {
		before = make(map[string]Term, len(st.heap))
		for k, v := range st.heap {
			before[k] = v
		}
	}
	defer func() {
		// auto-invariant: arrays the contract does not allow to change keep, for the objects that
		// existed at function entry, the values they had at function entry (checked at back edges)
		if before == nil {
			return
		}
		var names []string
		for name, t := range st.heap {
			if b, ok := before[name]; ok && b.S == t.S {
				continue
			}
			if strings.HasPrefix(name, "L.") || name == "alloc" || x.modifiesMentions(name) {
				continue
			}
			if sort_, ok := x.heapSorts[name]; !ok || idxSort(sort_) != SRef {
				continue
			}
			names = append(names, name)
		}
		sort.Strings(names)
		for _, name := range names {
			st.assume(x.frameInvTerm(st, name))
		}
		st.loopFrame[li.key] = names
	}()
	if ws.all {
		st.havocAll(nil)
	} else {
		for name := range ws.arrays {
			// arrays are registered lazily; make sure prefixes match every component
			for hn := range x.heapSorts {
				if hn == name || strings.HasPrefix(hn, name+".") {
					st.hhavoc(hn)
				}
			}
		}
	}
	for a := range ws.cells {
		pv, ok := st.regs[a]
		if !ok || pv.K != VCellPtr {
			continue
		}
		v, inv := x.enc.freshVal(pv.Cell.Typ, "loop."+pv.Cell.Name)
		v.Typ = pv.Cell.Typ
		st.cells[pv.Cell] = v
		st.assumeAll(inv)
		st.assumeLoaded(pv.Cell.Typ, v)
	}
	if ws.locks {
		// lock operations inside the loop: every iteration must leave the lock state as it found it
		var names []string
		for name := range x.heapSorts {
			if strings.HasPrefix(name, "L.") {
				names = append(names, name)
			}
		}
		sort.Strings(names)
		var snap []Term
		for _, name := range names {
			snap = append(snap, st.hget(name, x.heapSorts[name]))
		}
		st.loopSnap[li.key+"#locknames"] = nil
		st.lockSnapNames[li.key] = names
		st.loopSnap[li.key+"#locks"] = snap
	}
}

type writeSet struct {
	freeVars map[*ssa.FreeVar]bool
	all    bool
	arrays map[string]bool
	cells  map[*ssa.Alloc]bool
	locks  bool
}

func (x *Exec) loopWrites(fr *Frame, li *loopInfo) *writeSet {
	ws := &writeSet{arrays: map[string]bool{}, cells: map[*ssa.Alloc]bool{}, freeVars: map[*ssa.FreeVar]bool{}}
	for b := range li.body {
		x.blockWrites(b, ws, 0, map[*ssa.Function]bool{fr.fn: true})
	}
	return ws
}

func (x *Exec) blockWrites(b *ssa.BasicBlock, ws *writeSet, depth int, seen map[*ssa.Function]bool) {
	for _, in := range b.Instrs {
		switch t := in.(type) {
		case *ssa.Store:
			switch a := t.Addr.(type) {
			case *ssa.FieldAddr:
				pt := types.Unalias(a.X.Type()).Underlying().(*types.Pointer)
				f := types.Unalias(pt.Elem()).Underlying().(*types.Struct).Field(a.Field)
				ws.arrays[fieldArrName(pt.Elem(), f)] = true
			case *ssa.IndexAddr:
				var elem types.Type
				switch u := types.Unalias(a.X.Type()).Underlying().(type) {
				case *types.Slice:
					elem = u.Elem()
				case *types.Pointer:
					elem = types.Unalias(u.Elem()).Underlying().(*types.Array).Elem()
				}
				if elem != nil {
					ws.arrays[elemArrName(elem)] = true
				}
			case *ssa.Alloc:
				ws.cells[a] = true
			case *ssa.FreeVar:
				// captured cell of the enclosing function: resolved through the closure's bindings (callWrites)
				ws.freeVars[a] = true
			default:
				ws.all = true
			}
		case *ssa.MapUpdate:
			mt := types.Unalias(t.Map.Type()).Underlying().(*types.Map)
			n := mapName(mt)
			ws.arrays["MD."+n] = true
			ws.arrays["MV."+n] = true
			ws.arrays["ML."+n] = true
		case *ssa.Call:
			x.callWrites(t.Common(), ws, depth, seen)
		case *ssa.Defer:
			x.callWrites(t.Common(), ws, depth, seen)
		case *ssa.MakeSlice, *ssa.Alloc, *ssa.MakeMap, *ssa.MakeInterface:
			ws.arrays["alloc"] = true
			if a, ok := in.(*ssa.Alloc); ok {
				elem := types.Unalias(a.Type()).Underlying().(*types.Pointer).Elem()
				if isStructType(elem) {
					ws.all = ws.all || false
					x.structArrays(elem, ws)
				}
			}
			if mk, ok := in.(*ssa.MakeSlice); ok {
				ws.arrays[elemArrName(types.Unalias(mk.Type()).Underlying().(*types.Slice).Elem())] = true
			}
			if mm, ok := in.(*ssa.MakeMap); ok {
				n := mapName(types.Unalias(mm.Type()).Underlying().(*types.Map))
				ws.arrays["MD."+n] = true
				ws.arrays["ML."+n] = true
			}
			if mi, ok := in.(*ssa.MakeInterface); ok {
				if isStructType(mi.X.Type()) {
					x.structArrays(mi.X.Type(), ws)
				}
			}
		}
	}
}

func (x *Exec) structArrays(t types.Type, ws *writeSet) {
	s := types.Unalias(t).Underlying().(*types.Struct)
	for i := 0; i < s.NumFields(); i++ {
		f := s.Field(i)
		if isMutexType(f.Type()) {
			continue
		}
		if isStructType(f.Type()) {
			x.structArrays(f.Type(), ws)
			continue
		}
		ws.arrays[fieldArrName(t, f)] = true
	}
}

func (x *Exec) callWrites(c *ssa.CallCommon, ws *writeSet, depth int, seen map[*ssa.Function]bool) {
	if c.IsInvoke() {
		if ct := x.ifaceContract(c.Value.Type(), c.Method.Name()); ct != nil && (ct.Flags["pure"] || ct.HasMod && len(ct.Modifies) == 0) {
			return
		}
		// closed-world dispatch or opaque call
		ws.all = true
		return
	}
	switch v := c.Value.(type) {
	case *ssa.Builtin:
		switch v.Name() {
		case "append":
			stp := types.Unalias(c.Args[0].Type()).Underlying().(*types.Slice)
			ws.arrays[elemArrName(stp.Elem())] = true
			ws.arrays["alloc"] = true
		case "copy":
			stp := types.Unalias(c.Args[0].Type()).Underlying().(*types.Slice)
			ws.arrays[elemArrName(stp.Elem())] = true
		case "delete":
			mt := types.Unalias(c.Args[0].Type()).Underlying().(*types.Map)
			n := mapName(mt)
			ws.arrays["MD."+n] = true
			ws.arrays["ML."+n] = true
		}
	case *ssa.Function:
		name := v.String()
		if v.Origin() != nil {
			name = v.Origin().String()
		}
		if strings.HasPrefix(name, "(*sync.RWMutex).") || strings.HasPrefix(name, "(*sync.Mutex).") {
			ws.locks = true
			return
		}
		if _, ok := stdStubs[name]; ok {
			if stubWrites[name] {
				ws.all = true
			}
			for _, a := range stubArrays[name] {
				ws.arrays[a] = true
			}
			return
		}
		key := fullKey(v)
		if v.Origin() != nil {
			key = fullKey(v.Origin())
		}
		if ct, ok := x.specs.Funcs[key]; ok && !ct.Flags["inline"] {
			if ct.Flags["pure"] || (ct.HasMod && len(ct.Modifies) == 0) {
				return
			}
			if ct.HasMod {
				for _, m := range ct.Modifies {
					if !x.staticModArrays(v, m, ws) {
						ws.all = true
					}
				}
				return
			}
			ws.all = true
			return
		}
		if ct, ok := x.specs.Funcs[name]; ok {
			if ct.Flags["pure"] || (ct.HasMod && len(ct.Modifies) == 0) {
				return
			}
			ws.all = true
			return
		}
		if x.prog.moduleFunc(v) && len(v.Blocks) > 0 && depth < maxInlineDepth && !seen[v] && x.inlinable(v) {
			seen[v] = true
			for _, b := range v.Blocks {
				x.blockWrites(b, ws, depth+1, seen)
			}
			delete(seen, v)
			return
		}
		ws.all = true
	case *ssa.MakeClosure:
		fnc := v.Fn.(*ssa.Function)
		for _, b := range fnc.Blocks {
			x.blockWrites(b, ws, depth+1, seen)
		}
		for i, fv := range fnc.FreeVars {
			if ws.freeVars[fv] {
				if a, ok := v.Bindings[i].(*ssa.Alloc); ok {
					ws.cells[a] = true
				} else {
					ws.all = true
				}
				delete(ws.freeVars, fv)
			}
		}
	default:
		ws.all = true
	}
}

// staticModArrays maps a modifies entry of a callee to heap array names using only types.
func (x *Exec) staticModArrays(fn *ssa.Function, m string, ws *writeSet) bool {
	m = strings.TrimSpace(m)
	if m == "*" {
		return false
	}
	if strings.HasSuffix(m, "[*]") {
		base := strings.TrimSuffix(m, "[*]")
		for _, p := range fn.Params {
			if p.Name() == base {
				if sl, ok := types.Unalias(p.Type()).Underlying().(*types.Slice); ok {
					ws.arrays[elemArrName(sl.Elem())] = true
					return true
				}
			}
		}
		// x.f.g[*]: the element array of a slice- or map-typed field
		if ps := strings.Split(base, "."); len(ps) >= 2 {
			var cur types.Type
			for _, p := range fn.Params {
				if p.Name() == ps[0] {
					cur = p.Type()
				}
			}
			for i := 1; i < len(ps) && cur != nil; i++ {
				obj, _, _ := types.LookupFieldOrMethod(cur, true, fnPkg(fn), ps[i])
				if fv, ok := obj.(*types.Var); ok {
					cur = fv.Type()
				} else {
					cur = nil
				}
			}
			if cur != nil {
				if sl, ok := types.Unalias(cur).Underlying().(*types.Slice); ok {
					ws.arrays[elemArrName(sl.Elem())] = true
					return true
				}
			}
		}
		return false
	}
	parts := strings.Split(m, ".")
	if len(parts) < 2 {
		return false
	}
	var cur types.Type
	for _, p := range fn.Params {
		if p.Name() == parts[0] {
			cur = p.Type()
		}
	}
	if cur == nil && fnPkg(fn) != nil {
		if tn, ok := fnPkg(fn).Scope().Lookup(parts[0]).(*types.TypeName); ok && len(parts) == 2 {
			ws.arrays["F."+typeName(tn.Type())+"."+parts[1]] = true
			return true
		}
	}
	if cur == nil {
		return false
	}
	for i := 1; i < len(parts); i++ {
		obj, index, _ := types.LookupFieldOrMethod(cur, true, fnPkg(fn), parts[i])
		fv, ok := obj.(*types.Var)
		if !ok {
			return false
		}
		t := cur
		for _, fi := range index {
			if pt, ok := types.Unalias(t).Underlying().(*types.Pointer); ok {
				t = pt.Elem()
			}
			s, ok := types.Unalias(t).Underlying().(*types.Struct)
			if !ok {
				return false
			}
			f := s.Field(fi)
			if f == fv && i == len(parts)-1 {
				if isStructType(f.Type()) && !isMutexType(f.Type()) {
					x.structArrays(f.Type(), ws)
				} else {
					ws.arrays[fieldArrName(t, f)] = true
				}
				return true
			}
			t = f.Type()
		}
		cur = fv.Type()
	}
	return false
}

// applyKnown: an obligation listed as a known finding with a `when` predicate is proved on
// the complement of the known-bad region (goal' = when || goal, `when` over the entry state).
func (x *Exec) applyKnown(o *Obligation, goal Term) Term {
	for _, kf := range x.known {
		if kf.Kind != "known" || kf.WhenNode == nil || kf.Obl != o.ID {
			continue
		}
		ent := &State{x: x, heap: map[string]Term{}, regs: x.entryRegs, cells: map[*Cell]Val{}, fresh: map[string]bool{}}
		env := x.specEnv(x.topFrame, ent, nil)
		w, err := env.EvalBool(kf.WhenNode)
		if err != nil {
			x.abort("known finding %q: when: %v", kf.Text, err)
		}
		goal = Or(w, goal)
	}
	return goal
}
