package main

// Symbolic values and the mapping from Go types to SMT components.

import (
	"fmt"
	"go/types"
	"math/big"
	"sort"
	"strings"

	"golang.org/x/tools/go/ssa"
)

type VKind int

const (
	VTerm     VKind = iota // one SMT term (bool, integer, string, pointer-to-struct, interface, map, func id)
	VSlice                 // Parts = base(Ref) off len cap
	VStruct                // Parts = one Val per field, in declaration order
	VTuple                 // Parts = elements
	VCellPtr               // pointer to a local cell (non-escaping Alloc)
	VFieldPtr              // pointer to a non-struct field of a heap object
	VElemPtr               // pointer to an element of a slice or array object
	VGlobalPtr             // address of a package-level variable
	VClosure               // closure: Fn + Parts (bindings)
	VFunc                  // static function value
	VHeapCell              // pointer to a heap cell holding a non-struct value (escaping Alloc, *T fields with T scalar)
)

type Val struct {
	K     VKind
	T     Term
	Parts []Val
	Cell  *Cell
	Fn    *ssa.Function
	Glob  *ssa.Global
	Typ   types.Type // the Go type of the value (for VFieldPtr/VElemPtr/VHeapCell: the pointee type)
	Arr   string     // VFieldPtr: field array base name
	Idx   Term       // VElemPtr: index
	ST    types.Type // VFieldPtr: struct type owning the field
	FV    *types.Var // VFieldPtr: the field
	Retype func(t types.Type) Val // untyped constant expression: re-evaluate at a concrete type
}

type Cell struct {
	Name string
	Typ  types.Type
	ID   int
}

func TV(t Term) Val { return Val{K: VTerm, T: t} }

func (v Val) String() string {
	switch v.K {
	case VTerm:
		return v.T.S
	case VSlice:
		return fmt.Sprintf("slice{%s,%s,%s,%s}", v.Parts[0], v.Parts[1], v.Parts[2], v.Parts[3])
	case VStruct, VTuple:
		var s []string
		for _, p := range v.Parts {
			s = append(s, p.String())
		}
		return "{" + strings.Join(s, ", ") + "}"
	case VCellPtr:
		return "&cell:" + v.Cell.Name
	case VFieldPtr:
		return "&" + v.Arr + "[" + v.T.S + "]"
	case VElemPtr:
		return "&elem"
	case VGlobalPtr:
		return "&global:" + v.Glob.Name()
	case VClosure:
		return "closure:" + v.Fn.Name()
	case VFunc:
		return "func:" + v.Fn.String()
	case VHeapCell:
		return "&heapcell[" + v.T.S + "]"
	}
	return "?"
}

// ---------------------------------------------------------------------------
// Encoder: per verification unit (one function under contract).

type Enc struct {
	BV       bool // bit-vector mode
	decls    []string
	declared map[string]bool
	fresh    int
	tags     map[string]int // dynamic type tags
	tagNames []string
	tagTypes map[int]types.Type
	lits     map[string]Term // string literals
	litOrder []string
	fnIDs    map[string]int
	subKinds map[string]int
	axioms   []string // extra quantified axioms (sub-object functions, ...)
	used     map[string]bool
	trusted  map[string]bool // prelude items used (for the trusted base list)
	unmodel  map[string]bool // unmodelled calls
}

func NewEnc(bv bool) *Enc {
	return &Enc{BV: bv, declared: map[string]bool{}, tags: map[string]int{}, lits: map[string]Term{},
		fnIDs: map[string]int{}, subKinds: map[string]int{}, used: map[string]bool{}, trusted: map[string]bool{}, unmodel: map[string]bool{}}
}

func (e *Enc) declare(name string, sort Sort) {
	if e.declared[name] {
		return
	}
	e.declared[name] = true
	e.decls = append(e.decls, fmt.Sprintf("(declare-fun %s () %s)", name, sort))
}

func (e *Enc) declareFun(name string, args []Sort, ret Sort) {
	if e.declared[name] {
		return
	}
	e.declared[name] = true
	var as []string
	for _, a := range args {
		as = append(as, string(a))
	}
	e.decls = append(e.decls, fmt.Sprintf("(declare-fun %s (%s) %s)", name, strings.Join(as, " "), ret))
}

func (e *Enc) axiom(key, text string) {
	if e.declared["ax:"+key] {
		return
	}
	e.declared["ax:"+key] = true
	e.decls = append(e.decls, "(assert "+text+")")
}

func (e *Enc) Fresh(hint string, sort Sort) Term {
	e.fresh++
	name := fmt.Sprintf("%s!%d", mangle(hint), e.fresh)
	e.declare(name, sort)
	return Term{name, sort}
}

// UF application with on-demand declaration.
func (e *Enc) UF(name string, ret Sort, args ...Term) Term {
	var as []Sort
	for _, a := range args {
		as = append(as, a.Sort)
	}
	m := mangle(name)
	e.declareFun(m, as, ret)
	return app(ret, m, args...)
}

func (e *Enc) Tag(t types.Type) int {
	k := types.TypeString(t, nil)
	if n, ok := e.tags[k]; ok {
		return n
	}
	n := len(e.tags) + 1
	e.tags[k] = n
	e.tagNames = append(e.tagNames, k)
	if e.tagTypes == nil {
		e.tagTypes = map[int]types.Type{}
	}
	e.tagTypes[n] = t
	return n
}

func (e *Enc) TagTerm(t types.Type) Term { return IntLit(int64(e.Tag(t))) }

// StrLit returns the constant standing for a string literal.
func (e *Enc) StrLit(s string) Term {
	if s == "" {
		return Term{"str_empty", SStr}
	}
	if t, ok := e.lits[s]; ok {
		return t
	}
	name := fmt.Sprintf("lit!%d", len(e.lits))
	t := Term{name, SStr}
	e.lits[s] = t
	e.litOrder = append(e.litOrder, s)
	e.declare(name, SStr)
	e.decls = append(e.decls, fmt.Sprintf("(assert (= (slen %s) %d))", name, len(s)))
	for i := 0; i < len(s) && i < 64; i++ {
		e.decls = append(e.decls, fmt.Sprintf("(assert (= (sat %s %d) %d))", name, i, s[i]))
	}
	// distinct from every earlier literal of the same length (different length is implied by slen)
	for _, o := range e.litOrder[:len(e.litOrder)-1] {
		if len(o) == len(s) {
			e.decls = append(e.decls, fmt.Sprintf("(assert (not (= %s %s)))", name, e.lits[o].S))
		}
	}
	return t
}

func (e *Enc) FnID(name string) Term {
	if n, ok := e.fnIDs[name]; ok {
		return IntLit(int64(n))
	}
	n := len(e.fnIDs) + 1
	e.fnIDs[name] = n
	return IntLit(int64(n))
}

// Preamble is the fixed part of every script.
func (e *Enc) Preamble() string {
	var b strings.Builder
	b.WriteString("(declare-sort Ref 0)\n(declare-sort Str 0)\n")
	b.WriteString("(declare-fun null () Ref)\n(declare-fun str_empty () Str)\n")
	b.WriteString("(declare-fun slen (Str) Int)\n(declare-fun sat (Str Int) Int)\n")
	b.WriteString("(declare-datatypes ((Iface 0)) (((inil) (iref (itag Int) (pref Ref)) (iint (jtag Int) (pint Int)) (istr (ktag Int) (pstr Str)))))\n")
	b.WriteString("(define-fun tagof ((i Iface)) Int (ite ((_ is inil) i) 0 (ite ((_ is iref) i) (itag i) (ite ((_ is iint) i) (jtag i) (ktag i)))))\n")
	b.WriteString("(assert (= (slen str_empty) 0))\n")
	b.WriteString("(assert (forall ((s Str)) (! (and (>= (slen s) 0) (<= (slen s) 281474976710656)) :pattern ((slen s)))))\n") // finite memory: 2^48
	b.WriteString("(assert (forall ((s Str)) (! (=> (= (slen s) 0) (= s str_empty)) :pattern ((slen s)))))\n")
	b.WriteString("(assert (forall ((s Str) (i Int)) (! (and (<= 0 (sat s i)) (<= (sat s i) 255)) :pattern ((sat s i)))))\n")
	b.WriteString("(declare-fun subkind (Ref) Int)\n(declare-fun rootof (Ref) Ref)\n")
	return b.String()
}

// ---------------------------------------------------------------------------
// Integer typing

type intInfo struct {
	bits   int
	signed bool
}

func basicIntInfo(t types.Type) (intInfo, bool) {
	b, ok := t.Underlying().(*types.Basic)
	if !ok {
		return intInfo{}, false
	}
	switch b.Kind() {
	case types.Int, types.Int64, types.UntypedInt, types.UntypedRune:
		return intInfo{64, true}, true
	case types.Int32:
		return intInfo{32, true}, true
	case types.Int16:
		return intInfo{16, true}, true
	case types.Int8:
		return intInfo{8, true}, true
	case types.Uint, types.Uint64, types.Uintptr:
		return intInfo{64, false}, true
	case types.Uint32:
		return intInfo{32, false}, true
	case types.Uint16:
		return intInfo{16, false}, true
	case types.Uint8:
		return intInfo{8, false}, true
	}
	return intInfo{}, false
}

func (ii intInfo) min() *big.Int {
	if !ii.signed {
		return big.NewInt(0)
	}
	return new(big.Int).Neg(new(big.Int).Lsh(big.NewInt(1), uint(ii.bits-1)))
}

func (ii intInfo) max() *big.Int {
	if ii.signed {
		return new(big.Int).Sub(new(big.Int).Lsh(big.NewInt(1), uint(ii.bits-1)), big.NewInt(1))
	}
	return new(big.Int).Sub(new(big.Int).Lsh(big.NewInt(1), uint(ii.bits)), big.NewInt(1))
}

func (ii intInfo) mod() *big.Int { return new(big.Int).Lsh(big.NewInt(1), uint(ii.bits)) }

// ---------------------------------------------------------------------------
// Type shapes

func isStructPtr(t types.Type) bool {
	p, ok := t.Underlying().(*types.Pointer)
	if !ok {
		return false
	}
	_, ok = p.Elem().Underlying().(*types.Struct)
	return ok
}

// typeName gives a stable short name for a (struct) type, used in heap array names.
func typeName(t types.Type) string {
	t = types.Unalias(t)
	switch tt := t.(type) {
	case *types.Named:
		o := tt.Obj()
		if o.Pkg() != nil {
			return o.Pkg().Name() + "." + o.Name()
		}
		return o.Name()
	case *types.Pointer:
		return "*" + typeName(tt.Elem())
	case *types.Basic:
		switch tt.Kind() {
		case types.Uint8:
			return "uint8" // byte is an alias
		case types.Int32:
			return "int32" // rune is an alias
		}
		return tt.Name()
	case *types.Slice:
		return "[]" + typeName(tt.Elem())
	case *types.Array:
		return fmt.Sprintf("[%d]%s", tt.Len(), typeName(tt.Elem()))
	case *types.Map:
		return "map[" + typeName(tt.Key()) + "]" + typeName(tt.Elem())
	case *types.Interface:
		if tt.Empty() {
			return "any"
		}
		return "iface"
	case *types.TypeParam:
		return "tparam." + tt.Obj().Name()
	case *types.Signature:
		return "func"
	}
	return types.TypeString(t, func(p *types.Package) string { return p.Name() })
}

// sortsOf returns the SMT sorts of the flattened components of a value of type t.
func (e *Enc) sortsOf(t types.Type) []Sort {
	t = types.Unalias(t)
	if isMutexType(t) {
		return nil
	}
	switch u := t.Underlying().(type) {
	case *types.Basic:
		switch {
		case u.Info()&types.IsBoolean != 0:
			return []Sort{SBool}
		case u.Info()&types.IsString != 0:
			return []Sort{SStr}
		case u.Info()&types.IsInteger != 0:
			if e.BV {
				ii, _ := basicIntInfo(t)
				return []Sort{SBV(ii.bits)}
			}
			return []Sort{SInt}
		case u.Kind() == types.UnsafePointer:
			return []Sort{SRef}
		case u.Kind() == types.UntypedNil:
			return []Sort{SRef}
		case u.Info()&types.IsFloat != 0:
			return []Sort{SInt} // floats are not modelled: opaque
		}
	case *types.Pointer:
		return []Sort{SRef}
	case *types.Interface:
		return []Sort{SIface}
	case *types.Map, *types.Chan:
		return []Sort{SRef}
	case *types.Signature:
		return []Sort{SFn}
	case *types.Slice:
		return []Sort{SRef, SInt, SInt, SInt}
	case *types.Array:
		return []Sort{SRef}
	case *types.Struct:
		var out []Sort
		for i := 0; i < u.NumFields(); i++ {
			out = append(out, e.sortsOf(u.Field(i).Type())...)
		}
		return out
	case *types.Tuple:
		var out []Sort
		for i := 0; i < u.Len(); i++ {
			out = append(out, e.sortsOf(u.At(i).Type())...)
		}
		return out
	}
	if _, ok := t.(*types.TypeParam); ok {
		return []Sort{SIface}
	}
	panic(fmt.Sprintf("sortsOf: unsupported type %s (%T)", t, t.Underlying()))
}

func isMutexType(t types.Type) bool {
	s := types.TypeString(types.Unalias(t), nil)
	return s == "sync.Mutex" || s == "sync.RWMutex"
}

// flatten returns the component terms of a value (only term-like kinds).
func flatten(v Val) []Term {
	switch v.K {
	case VTerm:
		return []Term{v.T}
	case VSlice, VStruct, VTuple:
		var out []Term
		for _, p := range v.Parts {
			out = append(out, flatten(p)...)
		}
		return out
	case VFunc:
		return []Term{v.T}
	}
	panic("flatten: value kind not storable: " + v.String())
}

// unflatten rebuilds a Val of type t from component terms.
func (e *Enc) unflatten(t types.Type, cs []Term) (Val, []Term) {
	t0 := t
	t = types.Unalias(t)
	if isMutexType(t) {
		return Val{K: VStruct, Typ: t0}, cs
	}
	switch u := t.Underlying().(type) {
	case *types.Slice:
		return Val{K: VSlice, Parts: []Val{TV(cs[0]), TV(cs[1]), TV(cs[2]), TV(cs[3])}, Typ: t0}, cs[4:]
	case *types.Struct:
		v := Val{K: VStruct, Typ: t0}
		for i := 0; i < u.NumFields(); i++ {
			var p Val
			p, cs = e.unflatten(u.Field(i).Type(), cs)
			v.Parts = append(v.Parts, p)
		}
		return v, cs
	case *types.Tuple:
		v := Val{K: VTuple, Typ: t0}
		for i := 0; i < u.Len(); i++ {
			var p Val
			p, cs = e.unflatten(u.At(i).Type(), cs)
			v.Parts = append(v.Parts, p)
		}
		return v, cs
	}
	return Val{K: VTerm, T: cs[0], Typ: t0}, cs[1:]
}

// zeroTerm gives the zero value of a sort/type.
func (e *Enc) zeroVal(t types.Type) Val {
	var cs []Term
	e.zeroComps(t, &cs)
	v, _ := e.unflatten(t, cs)
	return v
}

func (e *Enc) zeroComps(t types.Type, out *[]Term) {
	t = types.Unalias(t)
	if isMutexType(t) {
		return
	}
	switch u := t.Underlying().(type) {
	case *types.Basic:
		switch {
		case u.Info()&types.IsBoolean != 0:
			*out = append(*out, TFalse)
		case u.Info()&types.IsString != 0:
			*out = append(*out, e.StrLit(""))
		case u.Info()&types.IsInteger != 0:
			*out = append(*out, e.IntConst(big.NewInt(0), t))
		default:
			if u.Kind() == types.UnsafePointer || u.Kind() == types.UntypedNil {
				*out = append(*out, TNull)
			} else {
				*out = append(*out, IntLit(0))
			}
		}
		return
	case *types.Pointer, *types.Map, *types.Chan, *types.Array:
		*out = append(*out, TNull)
		return
	case *types.Interface:
		*out = append(*out, TINil)
		return
	case *types.Signature:
		*out = append(*out, IntLit(0))
		return
	case *types.Slice:
		*out = append(*out, TNull, IntLit(0), IntLit(0), IntLit(0))
		return
	case *types.Struct:
		for i := 0; i < u.NumFields(); i++ {
			e.zeroComps(u.Field(i).Type(), out)
		}
		return
	case *types.Tuple:
		for i := 0; i < u.Len(); i++ {
			e.zeroComps(u.At(i).Type(), out)
		}
		return
	}
	if _, ok := t.(*types.TypeParam); ok {
		*out = append(*out, TINil)
		return
	}
	panic("zeroComps: " + t.String())
}

func (e *Enc) IntConst(n *big.Int, t types.Type) Term {
	if e.BV {
		ii, ok := basicIntInfo(t)
		if !ok {
			ii = intInfo{64, true}
		}
		return BVLit(n, ii.bits)
	}
	return IntLitBig(n)
}

// freshVal makes an unconstrained value of type t; range/shape assumptions are returned.
func (e *Enc) freshVal(t types.Type, hint string) (Val, []Term) {
	sorts := e.sortsOf(t)
	var cs []Term
	for i, s := range sorts {
		h := hint
		if len(sorts) > 1 {
			h = fmt.Sprintf("%s.%d", hint, i)
		}
		cs = append(cs, e.Fresh(h, s))
	}
	v, _ := e.unflatten(t, cs)
	return v, e.typeInv(t, v)
}

// typeInv returns the facts every Go value of type t satisfies in this encoding
// (integer ranges in Int mode, slice header sanity).
func (e *Enc) typeInv(t types.Type, v Val) []Term {
	var out []Term
	t = types.Unalias(t)
	if isMutexType(t) {
		return nil
	}
	switch u := t.Underlying().(type) {
	case *types.Basic:
		if u.Info()&types.IsInteger != 0 && !e.BV {
			ii, _ := basicIntInfo(t)
			out = append(out, app(SBool, "<=", IntLitBig(ii.min()), v.T), app(SBool, "<=", v.T, IntLitBig(ii.max())))
		}
	case *types.Slice:
		base, off, ln, cp := v.Parts[0].T, v.Parts[1].T, v.Parts[2].T, v.Parts[3].T
		out = append(out, app(SBool, "<=", IntLit(0), off), app(SBool, "<=", IntLit(0), ln), app(SBool, "<=", ln, cp),
			app(SBool, "<=", cp, IntLitBig(new(big.Int).Lsh(big.NewInt(1), 48))), // finite memory: no slice exceeds the amd64 address space
			Implies(Eq(base, TNull), And(Eq(ln, IntLit(0)), Eq(cp, IntLit(0)))))
	case *types.Struct:
		for i := 0; i < u.NumFields(); i++ {
			out = append(out, e.typeInv(u.Field(i).Type(), v.Parts[i])...)
		}
	case *types.Tuple:
		for i := 0; i < u.Len(); i++ {
			out = append(out, e.typeInv(u.At(i).Type(), v.Parts[i])...)
		}
	}
	return out
}

func sortedKeys[V any](m map[string]V) []string {
	var ks []string
	for k := range m {
		ks = append(ks, k)
	}
	sort.Strings(ks)
	return ks
}
