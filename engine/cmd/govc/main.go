package main

import (
	"flag"
	"fmt"
	"os"
	"sort"
	"strings"
	"time"
)

func main() {
	if len(os.Args) < 2 {
		fmt.Fprintln(os.Stderr, "usage: govc verify|check|list ...")
		os.Exit(2)
	}
	switch os.Args[1] {
	case "verify":
		cmdVerify(os.Args[2:])
	case "check":
		cmdCheck(os.Args[2:])
	case "list":
		cmdList(os.Args[2:])
	case "dump":
		cmdDump(os.Args[2:])
	case "selftest":
		cmdSelftest(os.Args[2:])
	case "replay":
		cmdReplay(os.Args[2:])
	default:
		fmt.Fprintln(os.Stderr, "unknown command")
		os.Exit(2)
	}
}

func loadAll(repo, prelude, tags string) (*Program, *Specs) {
	t0 := time.Now()
	prog, err := LoadProgram(repo, tags)
	if err != nil {
		fmt.Fprintln(os.Stderr, "govc: load:", err)
		os.Exit(2)
	}
	specs, err := LoadSpecs(findContractFiles(repo, prelude, tags))
	if err != nil {
		fmt.Fprintln(os.Stderr, "govc: contracts:", err)
		os.Exit(2)
	}
	if os.Getenv("GOVC_VERBOSE") != "" {
		fmt.Fprintf(os.Stderr, "loaded %d functions, %d contracts in %v\n", len(prog.ByKey), len(specs.Funcs), time.Since(t0))
	}
	return prog, specs
}

func cmdList(args []string) {
	fs := flag.NewFlagSet("list", flag.ExitOnError)
	repo := fs.String("repo", "/repo", "")
	tags := fs.String("tags", "verif", "")
	fs.Parse(args)
	prog, _ := loadAll(*repo, "/verif/prelude", *tags)
	for _, k := range prog.keys() {
		fmt.Println(k)
	}
}

func cmdVerify(args []string) {
	fs := flag.NewFlagSet("verify", flag.ExitOnError)
	repo := fs.String("repo", "/repo", "")
	prelude := fs.String("prelude", "/verif/prelude", "")
	tags := fs.String("tags", "verif", "")
	fn := fs.String("fn", "", "function key, e.g. avfs.CopyFileHash (comma separated)")
	dump := fs.String("dump", "", "directory to dump failed queries")
	timeout := fs.Int("timeout", 10000, "per-check timeout ms")
	verbose := fs.Bool("v", false, "")
	probe := fs.Bool("probe", false, "run the vacuity probe instead (assert false at every exit)")
	tmode := fs.Bool("tmode", false, "thread-modular mode (havoc guarded fields at every lock acquisition; C06 clauses active)")
	fs.Parse(args)
	prog, specs := loadAll(*repo, *prelude, *tags)
	if !*tmode {
		specs = specs.SView()
	}
	d := NewDischarger(*timeout, false)
	for _, key := range strings.Split(*fn, ",") {
		f, ok := prog.ByKey[key]
		if !ok {
			fmt.Fprintln(os.Stderr, "no such function:", key)
			os.Exit(2)
		}
		ct := specs.Funcs[key]
		t0 := time.Now()
		u := VerifyUnit(prog, specs, f, ct, UnitOpts{ProbeExit: *probe, Tmode: *tmode})
		insts := d.DischargeUnit(u)
		res := aggregate(insts)
		fmt.Printf("== %s: %d paths, %d obligations, %v\n", key, u.Paths, len(res), time.Since(t0))
		for r, n := range u.Aborted {
			fmt.Printf("   aborted x%d: %s\n", n, r)
		}
		if u.Overflow {
			fmt.Println("   PATH CAP OVERFLOW")
		}
		for _, id := range sortedOblIDs(res) {
			r := res[id]
			mark := "ok  "
			if r.Status != "discharged" {
				mark = "FAIL"
			}
			if r.Status != "discharged" || *verbose {
				fmt.Printf("  %s %s [%s] x%d\n", mark, id, strings.Join(r.Props, ","), r.Instances)
			}
			for i, fi := range r.Failed {
				if i >= 2 {
					break
				}
				fmt.Printf("       path %s: %v\n", fi.Obl.Path, fi.Outputs)
				if *dump != "" {
					p := dumpQuery(*dump, fmt.Sprintf("%s.%d.smt2", mangle(id), i), fi.Query)
					fmt.Printf("       query: %s\n", p)
				}
			}
		}
		var cu []string
		for k, n := range u.ClauseUse {
			if n == 0 {
				cu = append(cu, k)
			}
		}
		sort.Strings(cu)
		for _, k := range cu {
			fmt.Printf("   UNUSED CLAUSE: %s\n", k)
		}
		if *verbose {
			fmt.Printf("   trusted: %v\n   unmodelled: %v\n", u.Trusted, u.Unmodel)
		}
	}
	fmt.Printf("solver: %d queries, wins %v, total %dms\n", d.Stats.Queries, d.Stats.Wins, d.Stats.TotalMs)
}

