package main

// The property driver: which units a property needs, baselines of claimed obligations,
// known findings, vacuity probes, evidence files, VIOLATION / KNOWN-FINDING lines.

import (
	"encoding/json"
	"flag"
	"fmt"
	"os"
	"path/filepath"
	"regexp"
	"sort"
	"strconv"
	"strings"
	"sync"
	"time"

	"golang.org/x/tools/go/ssa"
)

type PropConfig struct {
	Tags       [][]string `json:"tags"`        // build-tag configurations to verify under (each includes "verif")
	ExtraUnits []string   `json:"extra_units"` // regexps over function keys: verified even without a contract (safety sweep)
	SkipUnits  []string   `json:"skip_units"`
	AllUnits   bool       `json:"all_units"` // every function under contract is relevant (C07)
	Tmode      bool       `json:"tmode"`     // thread-modular mode: guarded fields are havocked at every lock acquisition
	Residue    string     `json:"residue"`
	Replay     string     `json:"replay"`
	// Bounded: drivers run in the thorough tier only, labelled bounded in the evidence, never counted as proved
	Bounded []struct {
		Label string     `json:"label"`
		Rule  replayRule `json:"rule"`
		Quick bool       `json:"quick"` // cheap enough to run in the quick tier too (still labelled bounded)
	} `json:"bounded"`
}

type KnownFinding struct {
	Kind     string // known | fixed
	Prop     string
	Obl      string
	When     string
	WhenNode *SNode
	Text     string
	Commit   string
}

func loadKnown(path string) ([]*KnownFinding, error) {
	data, err := os.ReadFile(path)
	if err != nil {
		if os.IsNotExist(err) {
			return nil, nil
		}
		return nil, err
	}
	var out []*KnownFinding
	for ln, line := range strings.Split(string(data), "\n") {
		line = strings.TrimSpace(line)
		if line == "" || strings.HasPrefix(line, "#") {
			continue
		}
		kf := &KnownFinding{}
		switch {
		case strings.HasPrefix(line, "known:"):
			kf.Kind = "known"
			line = strings.TrimSpace(line[6:])
		case strings.HasPrefix(line, "fixed:"):
			kf.Kind = "fixed"
			line = strings.TrimSpace(line[6:])
		default:
			return nil, fmt.Errorf("%s:%d: line must start with known: or fixed:", path, ln+1)
		}
		if i := strings.Index(line, " :: "); i >= 0 {
			kf.Text = strings.TrimSpace(line[i+4:])
			line = line[:i]
		}
		// property=<id> obligation=<...> when=<...>  (obligation and when run to the next key= token)
		re := regexp.MustCompile(`\b(property|obligation|when|commit)=`)
		locs := re.FindAllStringSubmatchIndex(line, -1)
		for i, l := range locs {
			key := line[l[2]:l[3]]
			end := len(line)
			if i+1 < len(locs) {
				end = locs[i+1][0]
			}
			val := strings.TrimSpace(line[l[1]:end])
			switch key {
			case "property":
				kf.Prop = val
			case "obligation":
				kf.Obl = val
			case "when":
				kf.When = val
			case "commit":
				kf.Commit = val
			}
		}
		if kf.Prop == "" {
			return nil, fmt.Errorf("%s:%d: missing property=", path, ln+1)
		}
		if kf.Kind == "known" && kf.When != "" {
			n, err := ParseSpec(kf.When)
			if err != nil {
				return nil, fmt.Errorf("%s:%d: when: %v", path, ln+1, err)
			}
			kf.WhenNode = n
		}
		out = append(out, kf)
	}
	return out, nil
}

func loadBaseline(path string) (map[string]bool, error) {
	data, err := os.ReadFile(path)
	if err != nil {
		if os.IsNotExist(err) {
			return map[string]bool{}, nil
		}
		return nil, err
	}
	m := map[string]bool{}
	for _, l := range strings.Split(string(data), "\n") {
		l = strings.TrimSpace(l)
		if l == "" || strings.HasPrefix(l, "#") {
			continue
		}
		m[l] = true
	}
	return m, nil
}

type unitRun struct {
	key    string
	tags   string
	res    *UnitResult
	insts  []*OblInstance
	probe  string // ok | vacuous | n/a
	ms     int64
}

type Evidence struct {
	PropertyID  string         `json:"property_id"`
	Tier        string         `json:"tier"`
	Seed        int            `json:"seed"`
	Level       string         `json:"level"`
	Coverage    map[string]any `json:"coverage"`
	Assumptions []string       `json:"assumptions"`
	WallS       float64        `json:"wall_s"`
	Violations  int            `json:"violations"`
}

func hasProp(props []string, p string) bool {
	for _, q := range props {
		if q == p {
			return true
		}
	}
	return false
}

func contractMentions(ct *Contract, p string) bool {
	for _, cl := range ct.Ensures {
		if hasProp(cl.Props, p) {
			return true
		}
	}
	for _, cl := range ct.AtCalls {
		if hasProp(cl.Props, p) {
			return true
		}
	}
	for _, ls := range ct.Loops {
		for _, cl := range ls {
			if hasProp(cl.Props, p) {
				return true
			}
		}
	}
	return false
}

func cmdCheck(args []string) {
	fs := flag.NewFlagSet("check", flag.ExitOnError)
	repo := fs.String("repo", "/repo", "")
	root := fs.String("root", "/verif", "")
	prop := fs.String("prop", "", "property id")
	tier := fs.String("tier", "quick", "quick|thorough")
	rebase := fs.Bool("rebase", false, "rewrite the baseline of claimed obligations from this run")
	verbose := fs.Bool("v", false, "")
	out := fs.String("out", "", "output directory for evidence/replays (default: root)")
	fs.Parse(args)
	outDir = *out
	os.Exit(runCheck(*repo, *root, *prop, *tier, *rebase, *verbose))
}

var repoDir = "/repo"
var outDir = ""

func runCheck(repo, root, prop, tier string, rebase, verbose bool) int {
	repoDir = repo
	if outDir == "" {
		outDir = root
	}
	t0 := time.Now()
	seed, _ := strconv.Atoi(os.Getenv("VERIF_SEED"))
	if t := os.Getenv("VERIF_TIER"); t != "" && tier == "" {
		tier = t
	}
	cfgs := map[string]*PropConfig{}
	if data, err := os.ReadFile(filepath.Join(root, "props.json")); err == nil {
		if err := json.Unmarshal(data, &cfgs); err != nil {
			fmt.Fprintln(os.Stderr, "govc: props.json:", err)
			return 2
		}
	}
	cfg := cfgs[prop]
	if cfg == nil {
		cfg = &PropConfig{}
	}
	if len(cfg.Tags) == 0 {
		cfg.Tags = [][]string{{"verif"}}
	}
	known, err := loadKnown(filepath.Join(root, "KNOWN_FINDINGS.txt"))
	if err != nil {
		fmt.Fprintln(os.Stderr, "govc:", err)
		return 2
	}
	baseline, err := loadBaseline(filepath.Join(root, "baseline", prop+".obl"))
	if err != nil {
		fmt.Fprintln(os.Stderr, "govc:", err)
		return 2
	}
	timeout := 10000
	thorough := tier == "thorough"
	if thorough {
		timeout = 60000
	}
	var runs []*unitRun
	var toolErrs []string
	d := NewDischarger(timeout, thorough)
	if rebase && os.Getenv("GOVC_FAST_REBASE") != "" {
		// claim only what discharges quickly on the primary solver (large sweeps)
		d = NewDischarger(2500, false)
		d.NoRace = true
	}
	multiTags := len(cfg.Tags) > 1
	skipSet, _ := loadBaseline(filepath.Join(root, "baseline", prop+".skip"))
	if os.Getenv("GOVC_CLAIM_ALL") == "" && !rebase && !thorough && len(skipSet) > 0 {
		d.Skip = func(id string) bool {
			if skipSet[id] {
				return true
			}
			if multiTags {
				for _, tags := range cfg.Tags {
					if skipSet["["+strings.Join(tags, ",")+"] "+id] {
						return true
					}
				}
			}
			return false
		}
	}
	if os.Getenv("GOVC_CLAIM_ALL") == "" && !rebase {
		d.Claimed = func(id string) bool {
			if baseline[id] {
				return true
			}
			if multiTags {
				for _, tags := range cfg.Tags {
					if baseline["["+strings.Join(tags, ",")+"] "+id] {
						return true
					}
				}
			}
			return false
		}
	}
	nContracts := 0
	var contractFiles []string
	for _, tags := range cfg.Tags {
		tagStr := strings.Join(tags, ",")
		prog, specs := loadAll(repo, filepath.Join(root, "prelude"), tagStr)
		if !cfg.Tmode {
			specs = specs.SView()
		}
		contractFiles = specs.Files
		// select units
		var keys []string
		for key, ct := range specs.Funcs {
			if ct.IsIface || ct.Flags["trusted"] {
				continue // assumed contracts are not verified (listed in the trusted base where used)
			}
			if _, ok := prog.ByKey[key]; !ok {
				toolErrs = append(toolErrs, fmt.Sprintf("contract for %s (%s) matches no function under tags %s", key, ct.Source, tagStr))
				continue
			}
			rel := cfg.AllUnits || contractMentions(ct, prop)
			if !rel {
				// type invariants of the receiver tagged with the property
				f := prog.ByKey[key]
				if f.Signature.Recv() != nil {
					x := &Exec{specs: specs}
					if ts, _ := x.typeSpecOf(f.Signature.Recv().Type()); ts != nil {
						for _, cl := range ts.Invs {
							if hasProp(cl.Props, prop) {
								rel = true
							}
						}
					}
				}
			}
			if rel {
				keys = append(keys, key)
			}
		}
		for _, pat := range cfg.ExtraUnits {
			re, err := regexp.Compile("^(" + pat + ")$")
			if err != nil {
				toolErrs = append(toolErrs, "bad extra_units pattern "+pat)
				continue
			}
			for _, k := range prog.keys() {
				if re.MatchString(k) {
					keys = append(keys, k)
				}
			}
		}
		var skip []*regexp.Regexp
		for _, pat := range cfg.SkipUnits {
			if re, err := regexp.Compile("^(" + pat + ")$"); err == nil {
				skip = append(skip, re)
			}
		}
		sort.Strings(keys)
		keys = uniq(keys)
		nContracts += len(keys)
		var wg sync.WaitGroup
		var mu sync.Mutex
		sem := make(chan struct{}, 8)
		for _, key := range keys {
			skipped := false
			for _, re := range skip {
				if re.MatchString(key) {
					skipped = true
				}
			}
			if skipped {
				continue
			}
			wg.Add(1)
			sem <- struct{}{}
			go func(key string) {
				defer wg.Done()
				defer func() { <-sem }()
				ur := verifyOne(prog, specs, key, tagStr, d, known, prop, len(cfg.ExtraUnits) > 0 && prop != "C07" && prop != "C08" && !cfg.Tmode, cfg.Tmode)
				mu.Lock()
				runs = append(runs, ur)
				mu.Unlock()
			}(key)
		}
		wg.Wait()
	}
	sort.Slice(runs, func(i, j int) bool {
		if runs[i].key != runs[j].key {
			return runs[i].key < runs[j].key
		}
		return runs[i].tags < runs[j].tags
	})
	// aggregate: obligation identity includes the tag configuration when more than one is used
	var all []*OblInstance
	multi := len(cfg.Tags) > 1
	for _, r := range runs {
		for _, in := range r.insts {
			if multi {
				o := *in.Obl
				o.ID = "[" + r.tags + "] " + o.ID
				in.Obl = &o
			}
			all = append(all, in)
		}
	}
	res := aggregate(all)
	return report(root, prop, tier, seed, cfg, runs, res, baseline, known, toolErrs, d, rebase, verbose, contractFiles, t0)
}

func uniq(s []string) []string {
	var out []string
	for i, x := range s {
		if i == 0 || x != s[i-1] {
			out = append(out, x)
		}
	}
	return out
}

func verifyOne(prog *Program, specs *Specs, key, tags string, d *Discharger, known []*KnownFinding, prop string, sweep ...bool) *unitRun {
	extra := ""
	if len(sweep) > 0 && sweep[0] {
		extra = prop
	}
	tmode := len(sweep) > 1 && sweep[1]
	t0 := time.Now()
	f := prog.ByKey[key]
	ct := specs.Funcs[key]
	ur := &unitRun{key: key, tags: tags}
	func() {
		defer func() {
			if r := recover(); r != nil {
				ur.res = &UnitResult{Key: key, Aborted: map[string]int{fmt.Sprintf("engine panic: %v", r): 1}}
			}
		}()
		ur.res = VerifyUnitKnown(prog, specs, f, ct, UnitOpts{ExtraProp: extra, Tmode: tmode}, known)
		ur.insts = d.DischargeUnit(ur.res)
		// vacuity probe: with "assert false" at every exit, at least one exit must be reachable.
		// Only assumptions can make a unit vacuous: skip the probe when there are none.
		if !unitHasAssumptions(specs, f, ct) {
			ur.probe = "n/a (no requires, no type invariant)"
			return
		}
		pr := VerifyUnitKnown(prog, specs, f, ct, UnitOpts{ProbeExit: true, Tmode: tmode}, nil)
		pd := NewDischarger(1500, false)
		pd.NoRace = true
		pis := pd.DischargeUnit(pr)
		ur.probe = "vacuous"
		for _, in := range pis {
			if in.Obl.Kind == "cover" && in.Status != "unsat" {
				ur.probe = "ok"
			}
		}
		if len(pis) == 0 {
			ur.probe = "no-exit"
		}
	}()
	ur.ms = time.Since(t0).Milliseconds()
	return ur
}

func unitHasAssumptions(specs *Specs, f *ssa.Function, ct *Contract) bool {
	if ct != nil && len(ct.Requires) > 0 {
		return true
	}
	x := &Exec{specs: specs}
	for _, p := range f.Params {
		if ts, _ := x.typeSpecOf(p.Type()); ts != nil && len(ts.Invs) > 0 {
			return true
		}
	}
	return false
}

func VerifyUnitKnown(prog *Program, specs *Specs, fn *ssa.Function, ct *Contract, opts UnitOpts, known []*KnownFinding) *UnitResult {
	opts.Known = known
	return VerifyUnit(prog, specs, fn, ct, opts)
}

type sample struct {
	Obligation string `json:"obligation"`
	Path       string `json:"path"`
	Goal       string `json:"goal_smt"`
	Status     string `json:"status"`
}

func report(root, prop, tier string, seed int, cfg *PropConfig, runs []*unitRun, res map[string]*OblResult, baseline map[string]bool,
	known []*KnownFinding, toolErrs []string, d *Discharger, rebase, verbose bool, contractFiles []string, t0 time.Time) int {
	ids := sortedOblIDs(res)
	// obligations relevant to this property
	var mine []string
	for _, id := range ids {
		if hasProp(res[id].Props, prop) {
			mine = append(mine, id)
		}
	}
	if rebase {
		var lines []string
		for _, id := range mine {
			if res[id].Status == "discharged" {
				lines = append(lines, id)
			}
		}
		os.MkdirAll(filepath.Join(root, "baseline"), 0o755)
		hdr := "# claimed obligations of " + prop + ": discharged on the reviewed tree; regenerate only with `./check " + prop + " rebase` after review\n"
		os.WriteFile(filepath.Join(root, "baseline", prop+".obl"), []byte(hdr+strings.Join(lines, "\n")+"\n"), 0o644)
		baseline = map[string]bool{}
		for _, l := range lines {
			baseline[l] = true
		}
		var skips []string
		for _, id := range ids {
			if res[id].Status != "discharged" && !baseline[id] {
				skips = append(skips, id)
			}
		}
		shdr := "# obligations that did not discharge on the reviewed tree (unclaimed, undecided): not attempted in the quick tier, attempted in the thorough tier\n"
		os.WriteFile(filepath.Join(root, "baseline", prop+".skip"), []byte(shdr+strings.Join(skips, "\n")+"\n"), 0o644)
		fmt.Printf("rebased %s: %d claimed obligations, %d not attempted in quick\n", prop, len(lines), len(skips))
	}
	if os.Getenv("GOVC_CLAIM_ALL") != "" {
		// triage mode: treat every obligation of the property as claimed
		for _, id := range mine {
			baseline[id] = true
		}
	}
	var violations []string
	var undecidedNew, unclaimed []string
	discharged := 0
	claimed := 0
	var missing []string
	var claimedIDs []string
	for id := range baseline {
		claimedIDs = append(claimedIDs, id)
	}
	sort.Strings(claimedIDs)
	replayDir := filepath.Join(outDir, "replays", prop)
	for _, id := range claimedIDs {
		claimed++
		r, ok := res[id]
		if !ok {
			// contract-clause obligations must exist; generated safety obligations may disappear with the code
			if isClauseObl(id) {
				// The contract no longer applies to the code (the clause cannot be evaluated any more, the
				// function is gone, every path aborts): the obligation is not discharged.  It is reported as a
				// violation when the replay driver of that obligation shows a failure on the real code,
				// otherwise as a tool error (undecided; exit 2).
				missing = append(missing, id)
			} else {
				claimed--
			}
			continue
		}
		if r.Status == "discharged" {
			discharged++
			continue
		}
		violations = append(violations, id)
	}
	for _, id := range mine {
		if baseline[id] {
			continue
		}
		if res[id].Status != "discharged" {
			unclaimed = append(unclaimed, id)
		} else {
			undecidedNew = append(undecidedNew, id) // discharged but not yet claimed
		}
	}
	// unit-level health
	var fnList []string
	var trusted, unmodel = map[string]bool{}, map[string]bool{}
	totalPaths := 0
	abortNotes := []string{}
	vacuity := map[string]string{}
	for _, r := range runs {
		fnList = append(fnList, r.key+" ["+r.tags+"]")
		if r.res == nil {
			continue
		}
		totalPaths += r.res.Paths
		for _, t := range r.res.Trusted {
			trusted[t] = true
		}
		for _, t := range r.res.Unmodel {
			unmodel[t] = true
		}
		for reason, n := range r.res.Aborted {
			abortNotes = append(abortNotes, fmt.Sprintf("%s: %d path(s) aborted: %s", r.key, n, reason))
			if strings.HasPrefix(reason, "engine panic") {
				toolErrs = append(toolErrs, r.key+": "+reason)
			}
		}
		if r.res.Overflow {
			toolErrs = append(toolErrs, r.key+": path cap exceeded (out of reach)")
		}
		vacuity[r.key+" ["+r.tags+"]"] = r.probe
		if r.probe == "vacuous" {
			toolErrs = append(toolErrs, r.key+": vacuity alarm: no exit of the function is reachable under its preconditions")
		}
		for label, n := range r.res.ClauseUse {
			if n == 0 {
				toolErrs = append(toolErrs, r.key+": contract clause generated no obligation: "+label)
			}
		}
	}
	toolErrs = append(toolErrs, d.Stats.ToolError...)
	sort.Strings(abortNotes)
	// known findings of this property
	var kfLines []string
	for _, kf := range known {
		if kf.Kind == "known" && kf.Prop == prop {
			kfLines = append(kfLines, kf.Text)
		}
	}
	// violations: write replay files
	code := 0
	os.MkdirAll(replayDir, 0o755)
	for _, id := range violations {
		r := res[id]
		path, reproduced := writeReplay(root, replayDir, prop, r, cfg)
		suffix := ""
		if !reproduced {
			suffix = " no-failing-input-found"
		}
		fmt.Printf("VIOLATION property=%s replay=%s%s\n", prop, path, suffix)
		fmt.Printf("  failed obligation: %s\n", id)
		code = 1
	}
	for _, id := range missing {
		or := &OblResult{ID: id, Kind: "missing", Status: "not generated"}
		path, reproduced := writeReplay(root, replayDir, prop, or, cfg)
		if reproduced {
			fmt.Printf("VIOLATION property=%s replay=%s\n", prop, path)
			fmt.Printf("  failed obligation (its contract clause no longer applies to the code; failure reproduced on the real code): %s\n", id)
			violations = append(violations, id)
			code = 1
		} else {
			toolErrs = append(toolErrs, "claimed obligation no longer generated (function renamed, clause not applicable, or paths aborted): "+id)
		}
	}
	// new failing obligations (not claimed, not known-undecided at the last rebase): a violation only if
	// the replay driver reproduces a failure on the real code; otherwise logged as undecided-new
	skipSet, _ := loadBaseline(filepath.Join(root, "baseline", prop+".skip"))
	var undecided []string
	for _, id := range unclaimed {
		bare := id
		if i := strings.Index(id, "] "); strings.HasPrefix(id, "[") && i > 0 {
			bare = id[i+2:]
		}
		if skipSet[id] || skipSet[bare] || len(baseline) == 0 || rebase {
			continue
		}
		path, reproduced := writeReplay(root, replayDir, prop, res[id], cfg)
		if reproduced {
			fmt.Printf("VIOLATION property=%s replay=%s\n", prop, path)
			fmt.Printf("  failed obligation (new, reproduced on the real code): %s\n", id)
			violations = append(violations, id)
			code = 1
		} else {
			undecided = append(undecided, id)
		}
	}
	for _, t := range kfLines {
		fmt.Printf("KNOWN-FINDING: property=%s %s\n", prop, t)
	}
	// thorough tier: the replay of every known finding is executed again (a finding that no longer
	// reproduces is reported in the evidence as stale; it still suppresses nothing)
	kfReplay := map[string]string{}
	if tier == "thorough" {
		rules := loadReplayRules(root)
		seenRule := map[string]bool{}
		for _, kf := range known {
			if kf.Kind != "known" || kf.Prop != prop || kf.Obl == "" {
				continue
			}
			for _, rule := range rules {
				re, err := regexp.Compile(rule.Match)
				if err != nil || !re.MatchString(kf.Obl) {
					continue
				}
				key := rule.Template + "|" + fmt.Sprint(rule.Params)
				if seenRule[key] {
					kfReplay[kf.Obl] = "same replay as another finding of this run"
					break
				}
				seenRule[key] = true
				run := runReplay(root, rule, re.FindStringSubmatch(kf.Obl), ReplayInstance{})
				switch {
				case run == nil:
					kfReplay[kf.Obl] = "replay driver could not be run"
				case run.Reproduced:
					kfReplay[kf.Obl] = "reproduced again on the real code"
				default:
					kfReplay[kf.Obl] = "STALE: no longer reproduces"
				}
				break
			}
		}
	}
	// thorough tier: bounded stand-ins (labelled bounded, never counted as proved)
	boundedNotes := []string{}
	{
		for _, b := range cfg.Bounded {
			if tier != "thorough" && !b.Quick {
				boundedNotes = append(boundedNotes, "BOUNDED "+b.Label+": thorough tier only, not run")
				continue
			}
			run := runReplay(root, b.Rule, nil, ReplayInstance{})
			switch {
			case run == nil:
				boundedNotes = append(boundedNotes, "BOUNDED "+b.Label+": driver could not be run")
			case run.Reproduced:
				rf := &ReplayFile{Property: prop, Obligation: "bounded: " + b.Label, Kind: "bounded", Replay: run, Note: "bounded driver found a failing input on the real code"}
				path := filepath.Join(replayDir, safeName("bounded_"+b.Label)+".json")
				data, _ := json.MarshalIndent(rf, "", " ")
				os.WriteFile(path, append(data, '\n'), 0o644)
				fmt.Printf("VIOLATION property=%s replay=%s\n", prop, path)
				fmt.Printf("  bounded driver (%s): %s\n", b.Label, firstLineWith(run.Output, "REPRODUCED"))
				violations = append(violations, "bounded: "+b.Label)
				code = 1
				boundedNotes = append(boundedNotes, "BOUNDED "+b.Label+": "+firstLineWith(run.Output, "REPRODUCED"))
			default:
				boundedNotes = append(boundedNotes, "BOUNDED "+b.Label+": no failing input up to the bound ("+firstLineWith(run.Output, "BOUNDED-OK")+")")
			}
		}
	}
	// evidence
	var samples []sample
	for _, id := range claimedIDs {
		if r, ok := res[id]; ok && len(samples) < 3 {
			samples = append(samples, sample{Obligation: id, Status: r.Status})
		}
	}
	for i := range samples {
		for _, r := range runs {
			for _, in := range r.insts {
				if in.Obl.ID == samples[i].Obligation && samples[i].Goal == "" {
					samples[i].Goal = truncate(in.Obl.Goal, 600)
					samples[i].Path = in.Obl.Path
				}
			}
		}
	}
	if len(samples) == 0 {
		samples = append(samples, sample{Obligation: "(none claimed)", Status: "n/a"})
	}
	sort.Strings(fnList)
	assumptions := []string{
		"go/packages + go/types + go/ssa (x/tools v0.29.0) and the go 1.23.5 front end produce the SSA of the code that runs",
		"govc's SSA semantics (DESIGN.md section 2.4): Burstall-Bornat heap, int = 64 bit, allocation never fails",
		"SMT solvers z3 4.8.12, z3-new 5.1.0, cvc5 1.0.x are sound for unsat answers",
		"goroutine interleavings are not modelled in sequential mode (S-mode); lock operations only update ghost lock state",
	}
	for _, t := range sortedKeys(trusted) {
		assumptions = append(assumptions, t)
	}
	for _, t := range sortedKeys(unmodel) {
		assumptions = append(assumptions, "unmodelled callee (heap havocked, result unconstrained): "+t)
	}
	if cfg.Residue != "" {
		assumptions = append(assumptions, "NOT decided by this check (residue): "+cfg.Residue)
	}
	wins := map[string]int{}
	for k, v := range d.Stats.Wins {
		wins[k] = v
	}
	cov := map[string]any{
		"obligations":              claimed,
		"discharged":               discharged,
		"checker_cmd":              fmt.Sprintf("./check %s %s  (govc check -prop %s -tier %s; solvers raced: z3-new 5.1.0 first, then z3 4.8.12 and cvc5 on anything not unsat)", prop, tier, prop, tier),
		"trusted_base":             assumptions,
		"functions_under_contract": fnList,
		"paths_explored":           totalPaths,
		"obligation_instances":     d.Stats.Queries,
		"duplicate_instances":      d.Stats.Dups,
		"solver_wins":              wins,
		"solver_total_ms":          d.Stats.TotalMs,
		"solver_max_script_ms":     d.Stats.MaxMs,
		"samples":                  samples,
		"unclaimed_failing":        unclaimed,
		"undecided_new":            undecided,
		"unclaimed_not_attempted_in_quick": sortedBoolKeys(d.Skipped),
		"discharged_not_claimed":   undecidedNew,
		"known_findings":           kfLines,
		"known_findings_replayed":  kfReplay,
		"aborted_paths":            abortNotes,
		"vacuity":                  vacuity,
		"tool_errors":              toolErrs,
		"contract_files":           contractFiles,
		"tag_configurations":       cfg.Tags,
		"bounded":                  boundedNotes,
	}
	ev := Evidence{PropertyID: prop, Tier: tier, Seed: seed, Level: "proof", Coverage: cov, Assumptions: assumptions, WallS: time.Since(t0).Seconds(), Violations: len(violations)}
	os.MkdirAll(filepath.Join(outDir, "evidence"), 0o755)
	data, _ := json.MarshalIndent(ev, "", " ")
	os.WriteFile(filepath.Join(outDir, "evidence", prop+".json"), append(data, '\n'), 0o644)
	fmt.Printf("%s %s: %d units, %d paths, claimed %d, discharged %d, violations %d, unclaimed-failing %d, new-discharged %d, %.1fs\n",
		prop, tier, len(runs), totalPaths, claimed, discharged, len(violations), len(unclaimed), len(undecidedNew), time.Since(t0).Seconds())
	if verbose {
		for _, r := range runs {
			if r.ms > 3000 {
				fmt.Printf("  slow unit: %s [%s] %dms\n", r.key, r.tags, r.ms)
			}
		}
		for _, id := range unclaimed {
			fmt.Println("  unclaimed failing:", id)
		}
		for _, id := range undecidedNew {
			fmt.Println("  discharged, not claimed:", id)
		}
		for _, n := range abortNotes {
			fmt.Println("  ", n)
		}
	}
	if len(toolErrs) > 0 {
		for _, e := range toolErrs {
			fmt.Fprintln(os.Stderr, "TOOL-ERROR:", e)
		}
		if code == 0 {
			code = 2
		}
	}
	if claimed == 0 && code == 0 {
		fmt.Fprintln(os.Stderr, "TOOL-ERROR: no claimed obligations for", prop)
		code = 2
	}
	return code
}

var clauseOblRe = regexp.MustCompile(` / (post|inv-preserved|inv-established|inv-init|inv-step|variant|frame|assert@[^ ]+) / `)

func sortedBoolKeys(m map[string]bool) []string {
	var ks []string
	for k := range m {
		ks = append(ks, k)
	}
	sort.Strings(ks)
	return ks
}

func regexpCompile(s string) (*regexp.Regexp, error) { return regexp.Compile(s) }

func isClauseObl(id string) bool { return clauseOblRe.MatchString(id) }

func truncate(s string, n int) string {
	if len(s) <= n {
		return s
	}
	return s[:n] + "..."
}

func firstLineWith(out, what string) string {
	for _, l := range strings.Split(out, "\n") {
		if strings.Contains(l, what) {
			return strings.TrimSpace(l)
		}
	}
	return ""
}
