package main

// Integer and boolean operators in the two arithmetic modes.
//
// Int mode: values are mathematical integers constrained to the range of their Go type;
// + - and multiplication/shift by constants wrap exactly (explicit ite / mod); bit operators
// with one constant operand are exact (div/mod decomposition of the mask); bit operators on
// two symbolic operands are uninterpreted functions (nothing false is assumed about them).
// BV mode: every integer is a bit-vector of its real width; all operators are exact.

import (
	"fmt"
	"go/token"
	"go/types"
	"math/big"
	"strings"
)

func parseIntLit(t Term) (*big.Int, bool) {
	s := t.S
	if t.Sort.IsBV() {
		var v string
		var w int
		if _, err := fmt.Sscanf(s, "(_ bv%s %d)", &v, &w); err == nil {
			n, ok := new(big.Int).SetString(strings.TrimSuffix(v, ")"), 10)
			return n, ok
		}
		return nil, false
	}
	neg := false
	if strings.HasPrefix(s, "(- ") && strings.HasSuffix(s, ")") {
		neg = true
		s = s[3 : len(s)-1]
	}
	n, ok := new(big.Int).SetString(s, 10)
	if !ok {
		return nil, false
	}
	if neg {
		n.Neg(n)
	}
	return n, true
}

func (e *Enc) wrap(x Term, ii intInfo) Term {
	if n, ok := parseIntLit(x); ok {
		m := new(big.Int).Mod(n, ii.mod())
		if ii.signed && m.Cmp(ii.max()) > 0 {
			m.Sub(m, ii.mod())
		}
		return IntLitBig(m)
	}
	// single add/sub of in-range operands overflows by at most one modulus
	mx, mn, md := IntLitBig(ii.max()), IntLitBig(ii.min()), IntLitBig(ii.mod())
	return Ite(app(SBool, ">", x, mx), app(SInt, "-", x, md), Ite(app(SBool, "<", x, mn), app(SInt, "+", x, md), x))
}

func (e *Enc) wrapMod(x Term, ii intInfo) Term {
	md := IntLitBig(ii.mod())
	u := app(SInt, "mod", x, md)
	if !ii.signed {
		return u
	}
	return Ite(app(SBool, ">", u, IntLitBig(ii.max())), app(SInt, "-", u, md), u)
}

// band with constant mask, exact in Int mode.
func (e *Enc) bandConst(x Term, mask *big.Int) Term {
	if mask.Sign() == 0 {
		return IntLit(0)
	}
	var parts []Term
	n := mask.BitLen()
	i := 0
	for i < n {
		if mask.Bit(i) == 0 {
			i++
			continue
		}
		j := i
		for j < n && mask.Bit(j) == 1 {
			j++
		}
		lo := new(big.Int).Lsh(big.NewInt(1), uint(i))
		w := new(big.Int).Lsh(big.NewInt(1), uint(j-i))
		t := x
		if i > 0 {
			t = app(SInt, "div", t, IntLitBig(lo))
		}
		t = app(SInt, "mod", t, IntLitBig(w))
		if i > 0 {
			t = app(SInt, "*", t, IntLitBig(lo))
		}
		parts = append(parts, t)
		i = j
	}
	if len(parts) == 1 {
		return parts[0]
	}
	return app(SInt, "+", parts...)
}

// IntBin computes a op b for integer operands of Go type t.  wrap=false gives the
// mathematical result (used in specifications in Int mode).
func (e *Enc) IntBin(op token.Token, a, b Term, t types.Type, wrap bool) Term {
	ii, ok := basicIntInfo(t)
	if !ok {
		ii = intInfo{64, true}
	}
	if e.BV {
		w := a.Sort.BVWidth()
		if b.Sort != a.Sort && (op == token.SHL || op == token.SHR) {
			b = e.bvResize(b, b.Sort.BVWidth(), w, false)
		}
		s := a.Sort
		switch op {
		case token.ADD:
			return app(s, "bvadd", a, b)
		case token.SUB:
			return app(s, "bvsub", a, b)
		case token.MUL:
			return app(s, "bvmul", a, b)
		case token.QUO:
			if ii.signed {
				return app(s, "bvsdiv", a, b)
			}
			return app(s, "bvudiv", a, b)
		case token.REM:
			if ii.signed {
				return app(s, "bvsrem", a, b)
			}
			return app(s, "bvurem", a, b)
		case token.AND:
			return app(s, "bvand", a, b)
		case token.OR:
			return app(s, "bvor", a, b)
		case token.XOR:
			return app(s, "bvxor", a, b)
		case token.AND_NOT:
			return app(s, "bvand", a, app(s, "bvnot", b))
		case token.SHL:
			return app(s, "bvshl", a, b)
		case token.SHR:
			if ii.signed {
				return app(s, "bvashr", a, b)
			}
			return app(s, "bvlshr", a, b)
		}
		panic("IntBin bv: " + op.String())
	}
	ca, aok := parseIntLit(a)
	cb, bok := parseIntLit(b)
	w := func(x Term) Term {
		if wrap {
			return e.wrap(x, ii)
		}
		return x
	}
	switch op {
	case token.ADD:
		if aok && bok {
			return w(IntLitBig(new(big.Int).Add(ca, cb)))
		}
		if bok && cb.Sign() == 0 {
			return a
		}
		if aok && ca.Sign() == 0 {
			return b
		}
		return w(app(SInt, "+", a, b))
	case token.SUB:
		if aok && bok {
			return w(IntLitBig(new(big.Int).Sub(ca, cb)))
		}
		if bok && cb.Sign() == 0 {
			return a
		}
		return w(app(SInt, "-", a, b))
	case token.MUL:
		if aok && bok {
			return w(IntLitBig(new(big.Int).Mul(ca, cb)))
		}
		if aok || bok {
			x := app(SInt, "*", a, b)
			if wrap {
				return e.wrapMod(x, ii)
			}
			return x
		}
		e.trusted["uninterpreted nonlinear multiplication (Int mode)"] = true
		return e.UF(fmt.Sprintf("mul%d", ii.bits), SInt, a, b)
	case token.QUO, token.REM:
		// Go truncates toward zero; SMT div/mod are Euclidean.  Exact for constant positive divisor.
		if bok && cb.Sign() > 0 {
			q := Ite(app(SBool, ">=", a, IntLit(0)), app(SInt, "div", a, b), app(SInt, "-", app(SInt, "div", app(SInt, "-", a), b)))
			if op == token.QUO {
				return q
			}
			return app(SInt, "-", a, app(SInt, "*", b, q))
		}
		e.trusted["uninterpreted division by a non-constant (Int mode)"] = true
		return e.UF(fmt.Sprintf("%s%d", map[token.Token]string{token.QUO: "quo", token.REM: "rem"}[op], ii.bits), SInt, a, b)
	case token.AND:
		if aok && bok {
			return IntLitBig(new(big.Int).And(ca, cb))
		}
		if bok && cb.Sign() >= 0 {
			return e.bandConst(a, cb)
		}
		if aok && ca.Sign() >= 0 {
			return e.bandConst(b, ca)
		}
		return e.bitUF("band", ii, a, b)
	case token.OR:
		if aok && bok {
			return IntLitBig(new(big.Int).Or(ca, cb))
		}
		if bok && cb.Sign() >= 0 {
			return app(SInt, "-", app(SInt, "+", a, b), e.bandConst(a, cb))
		}
		if aok && ca.Sign() >= 0 {
			return app(SInt, "-", app(SInt, "+", a, b), e.bandConst(b, ca))
		}
		return e.bitUF("bor", ii, a, b)
	case token.XOR:
		if aok && bok {
			return IntLitBig(new(big.Int).Xor(ca, cb))
		}
		if bok && cb.Sign() >= 0 {
			return app(SInt, "-", app(SInt, "+", a, b), app(SInt, "*", IntLit(2), e.bandConst(a, cb)))
		}
		return e.bitUF("bxor", ii, a, b)
	case token.AND_NOT:
		if aok && bok {
			return IntLitBig(new(big.Int).AndNot(ca, cb))
		}
		if bok && cb.Sign() >= 0 {
			return app(SInt, "-", a, e.bandConst(a, cb))
		}
		return e.bitUF("bandnot", ii, a, b)
	case token.SHL:
		if bok && cb.IsInt64() && cb.Int64() >= 0 && cb.Int64() < 64 {
			x := app(SInt, "*", a, IntLitBig(new(big.Int).Lsh(big.NewInt(1), uint(cb.Int64()))))
			if aok {
				x = IntLitBig(new(big.Int).Lsh(ca, uint(cb.Int64())))
			}
			if wrap {
				return e.wrapMod(x, ii)
			}
			return x
		}
		return e.bitUF("bshl", ii, a, b)
	case token.SHR:
		if bok && cb.IsInt64() && cb.Int64() >= 0 && cb.Int64() < 64 {
			if aok {
				return IntLitBig(new(big.Int).Rsh(ca, uint(cb.Int64())))
			}
			return app(SInt, "div", a, IntLitBig(new(big.Int).Lsh(big.NewInt(1), uint(cb.Int64()))))
		}
		return e.bitUF("bshr", ii, a, b)
	}
	panic("IntBin: " + op.String())
}

func (e *Enc) bitUF(name string, ii intInfo, a, b Term) Term {
	e.trusted["bit operators on two symbolic operands are uninterpreted in Int mode (only congruence is used)"] = true
	r := e.UF(fmt.Sprintf("%s%d", name, ii.bits), SInt, a, b)
	return r
}

func (e *Enc) IntCmp(op token.Token, a, b Term, t types.Type) Term {
	if e.BV && a.Sort.IsBV() {
		ii, ok := basicIntInfo(t)
		signed := ok && ii.signed
		var f string
		switch op {
		case token.LSS:
			f = "bvult"
			if signed {
				f = "bvslt"
			}
		case token.LEQ:
			f = "bvule"
			if signed {
				f = "bvsle"
			}
		case token.GTR:
			f = "bvugt"
			if signed {
				f = "bvsgt"
			}
		case token.GEQ:
			f = "bvuge"
			if signed {
				f = "bvsge"
			}
		}
		return app(SBool, f, a, b)
	}
	ca, aok := parseIntLit(a)
	cb, bok := parseIntLit(b)
	if aok && bok {
		c := ca.Cmp(cb)
		var r bool
		switch op {
		case token.LSS:
			r = c < 0
		case token.LEQ:
			r = c <= 0
		case token.GTR:
			r = c > 0
		case token.GEQ:
			r = c >= 0
		}
		if r {
			return TTrue
		}
		return TFalse
	}
	return app(SBool, map[token.Token]string{token.LSS: "<", token.LEQ: "<=", token.GTR: ">", token.GEQ: ">="}[op], a, b)
}

func (e *Enc) bvResize(x Term, from, to int, signed bool) Term {
	switch {
	case from == to:
		return x
	case from > to:
		return app(SBV(to), fmt.Sprintf("(_ extract %d 0)", to-1), x)
	case signed:
		return app(SBV(to), fmt.Sprintf("(_ sign_extend %d)", to-from), x)
	default:
		return app(SBV(to), fmt.Sprintf("(_ zero_extend %d)", to-from), x)
	}
}

// ConvertInt converts integer term x of Go type from to Go type to.
func (e *Enc) ConvertInt(x Term, from, to types.Type) Term {
	fi, ok1 := basicIntInfo(from)
	ti, ok2 := basicIntInfo(to)
	if !ok1 || !ok2 {
		return x
	}
	if e.BV {
		return e.bvResize(x, fi.bits, ti.bits, fi.signed)
	}
	if fi == ti {
		return x
	}
	// widening that preserves the value
	if ti.bits > fi.bits && (ti.signed || !fi.signed) {
		return x
	}
	if n, ok := parseIntLit(x); ok {
		m := new(big.Int).Mod(n, ti.mod())
		if ti.signed && m.Cmp(ti.max()) > 0 {
			m.Sub(m, ti.mod())
		}
		return IntLitBig(m)
	}
	if ti.bits == fi.bits {
		// same width, signedness change: at most one modulus away
		return e.wrap(x, ti)
	}
	return e.wrapMod(x, ti)
}

func (e *Enc) IntNeg(x Term, t types.Type) Term {
	if e.BV {
		return app(x.Sort, "bvneg", x)
	}
	ii, _ := basicIntInfo(t)
	return e.wrap(app(SInt, "-", x), ii)
}

func (e *Enc) IntNot(x Term, t types.Type) Term {
	if e.BV {
		return app(x.Sort, "bvnot", x)
	}
	ii, _ := basicIntInfo(t)
	if ii.signed {
		return app(SInt, "-", app(SInt, "-", x), IntLit(1))
	}
	return app(SInt, "-", IntLitBig(ii.max()), x)
}
