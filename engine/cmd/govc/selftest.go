package main

// Must-fail corpus: every patch under /verif/selftest/mutants/ is applied to a scratch copy of
// /repo (deleted afterwards); the check of the property it breaks must report a VIOLATION.

import (
	"bytes"
	"encoding/json"
	"flag"
	"fmt"
	"os"
	"os/exec"
	"path/filepath"
	"sort"
	"strings"
)

func cmdSelftest(args []string) {
	fs := flag.NewFlagSet("selftest", flag.ExitOnError)
	root := fs.String("root", "/verif", "")
	repo := fs.String("repo", "/repo", "")
	only := fs.String("prop", "", "only mutants of this property")
	dir := fs.String("dir", "", "mutant directory (default <root>/selftest/mutants)")
	fs.Parse(args)
	mdir := *dir
	if mdir == "" {
		mdir = filepath.Join(*root, "selftest", "mutants")
	}
	files, _ := filepath.Glob(filepath.Join(mdir, "*.patch"))
	seeded, _ := filepath.Glob(filepath.Join(*root, "seeded", "*", "patch.diff"))
	files = append(files, seeded...)
	sort.Strings(files)
	self, _ := os.Executable()
	bad := 0
	n := 0
	for _, f := range files {
		props := mutantProps(f)
		if len(props) == 0 {
			fmt.Printf("SKIP %s: no '# prop:' header / meta.json\n", f)
			continue
		}
		if *only != "" && !hasProp(props, *only) {
			continue
		}
		n++
		scratch, err := os.MkdirTemp("", "verif-selftest-")
		if err != nil {
			fmt.Println("cannot create scratch dir:", err)
			os.Exit(2)
		}
		cp := exec.Command("rsync", "-a", "--exclude", ".git", *repo+"/", scratch+"/")
		if out, err := cp.CombinedOutput(); err != nil {
			fmt.Printf("copy failed: %v %s\n", err, out)
			os.RemoveAll(scratch)
			os.Exit(2)
		}
		ap := exec.Command("patch", "-p1", "-s", "-i", f)
		ap.Dir = scratch
		if out, err := ap.CombinedOutput(); err != nil {
			fmt.Printf("FAIL %s: patch does not apply: %s\n", filepath.Base(f), strings.TrimSpace(string(out)))
			bad++
			os.RemoveAll(scratch)
			continue
		}
		caught := false
		var detail []string
		for _, p := range props {
			cmd := exec.Command(self, "check", "-repo", scratch, "-root", *root, "-prop", p, "-tier", mutantTier(f), "-out", filepath.Join(scratch, ".verif-out"))
			var out bytes.Buffer
			cmd.Stdout = &out
			cmd.Stderr = &out
			cmd.Env = os.Environ()
			err := cmd.Run()
			code := 0
			if ee, ok := err.(*exec.ExitError); ok {
				code = ee.ExitCode()
			}
			viol := 0
			for _, l := range strings.Split(out.String(), "\n") {
				if strings.HasPrefix(l, "VIOLATION property="+p+" ") {
					viol++
					if len(detail) < 2 {
						detail = append(detail, strings.TrimSpace(l))
					}
				}
				if strings.HasPrefix(l, "  failed obligation:") && len(detail) < 4 {
					detail = append(detail, strings.TrimSpace(l))
				}
			}
			if code == 1 && viol > 0 {
				caught = true
			} else if code == 2 {
				detail = append(detail, "tool error: "+lastLines(out.String(), 3))
			}
		}
		os.RemoveAll(scratch)
		name := filepath.Base(f)
		if name == "patch.diff" {
			name = "seeded/" + filepath.Base(filepath.Dir(f))
		}
		if caught {
			fmt.Printf("CAUGHT %s [%s]\n", name, strings.Join(props, ","))
		} else {
			fmt.Printf("MISSED %s [%s]\n", name, strings.Join(props, ","))
			bad++
		}
		for _, d := range detail {
			fmt.Println("      ", d)
		}
	}
	fmt.Printf("selftest: %d mutants, %d not caught\n", n, bad)
	if bad > 0 {
		os.Exit(1)
	}
}

func lastLines(s string, n int) string {
	ls := strings.Split(strings.TrimSpace(s), "\n")
	if len(ls) > n {
		ls = ls[len(ls)-n:]
	}
	return strings.Join(ls, " | ")
}

// mutantTier: a seeded change whose meta.json says "tier": "thorough" is expected to be caught by
// the thorough tier only (a bounded stand-in decides it); everything else must turn the quick tier red.
func mutantTier(f string) string {
	if filepath.Base(f) == "patch.diff" {
		if data, err := os.ReadFile(filepath.Join(filepath.Dir(f), "meta.json")); err == nil {
			var m struct {
				Tier string `json:"tier"`
			}
			json.Unmarshal(data, &m)
			if m.Tier == "thorough" {
				return "thorough"
			}
		}
	}
	return "quick"
}

func mutantProps(f string) []string {
	if filepath.Base(f) == "patch.diff" {
		data, err := os.ReadFile(filepath.Join(filepath.Dir(f), "meta.json"))
		if err != nil {
			return nil
		}
		var m struct {
			Property   string   `json:"property"`
			Properties []string `json:"properties"`
			CaughtBy   []string `json:"caught_by"`
		}
		json.Unmarshal(data, &m)
		if len(m.CaughtBy) > 0 {
			return m.CaughtBy
		}
		if len(m.Properties) > 0 {
			return m.Properties
		}
		if m.Property != "" {
			return []string{m.Property}
		}
		return nil
	}
	data, err := os.ReadFile(f)
	if err != nil {
		return nil
	}
	for _, l := range strings.Split(string(data), "\n") {
		if strings.HasPrefix(l, "# prop:") {
			return strings.Fields(strings.ReplaceAll(strings.TrimPrefix(l, "# prop:"), ",", " "))
		}
	}
	return nil
}

func cmdReplay(args []string) {
	if len(args) < 1 {
		fmt.Fprintln(os.Stderr, "usage: govc replay <replay file>")
		os.Exit(2)
	}
	data, err := os.ReadFile(args[0])
	if err != nil {
		fmt.Fprintln(os.Stderr, err)
		os.Exit(2)
	}
	var rf ReplayFile
	if err := json.Unmarshal(data, &rf); err != nil {
		fmt.Fprintln(os.Stderr, err)
		os.Exit(2)
	}
	fmt.Printf("obligation: %s\nproperty: %s\nnote: %s\n", rf.Obligation, rf.Property, rf.Note)
	rules := loadReplayRules("/verif")
	for _, rule := range rules {
		re, err := regexpCompile(rule.Match)
		if err != nil || !re.MatchString(rf.Obligation) {
			continue
		}
		for _, inst := range rf.Instances {
			run := runReplay("/verif", rule, re.FindStringSubmatch(rf.Obligation), inst)
			if run == nil {
				continue
			}
			fmt.Println(run.Cmd)
			fmt.Println(run.Output)
			if run.Reproduced {
				fmt.Println("reproduced on the real code")
				os.Exit(1)
			}
		}
		fmt.Println("not reproduced")
		os.Exit(0)
	}
	fmt.Println("no replay driver for this obligation; solver outputs are in the replay file")
}
