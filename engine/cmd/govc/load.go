package main

// Loading /repo (the real sources, with the guard tag) into typed ASTs and SSA.

import (
	"fmt"
	"go/ast"
	"go/token"
	"go/types"
	"os"
	"sort"
	"strings"
	"sync"

	"golang.org/x/tools/go/packages"
	"golang.org/x/tools/go/ssa"
	"golang.org/x/tools/go/ssa/ssautil"
)

type Program struct {
	Fset  *token.FileSet
	Pkgs  []*packages.Package
	SSA   *ssa.Program
	ByKey map[string]*ssa.Function // "memfs.(*MemFile).Read", "avfs.CopyFileHash"
	SPkgs map[string]*ssa.Package  // by package name (module packages)
	PPkgs map[string]*packages.Package
	Tags  string
	Files map[string][]byte // source files (for expression text)
	fmu   sync.Mutex
}

func LoadProgram(dir string, tags string) (*Program, error) {
	cfg := &packages.Config{
		Mode:       packages.LoadAllSyntax,
		Dir:        dir,
		BuildFlags: []string{"-tags=" + tags},
		Env:        append(os.Environ(), "GOFLAGS=-mod=mod", "GOPROXY=off", "GOSUMDB=off", "GOTOOLCHAIN=local"),
	}
	pkgs, err := packages.Load(cfg, "./...")
	if err != nil {
		return nil, err
	}
	var errs []string
	for _, p := range pkgs {
		for _, e := range p.Errors {
			errs = append(errs, e.Error())
		}
	}
	if len(errs) > 0 {
		return nil, fmt.Errorf("load errors: %s", strings.Join(errs, "; "))
	}
	prog, spkgs := ssautil.AllPackages(pkgs, ssa.GlobalDebug)
	prog.Build()
	p := &Program{Pkgs: pkgs, SSA: prog, ByKey: map[string]*ssa.Function{}, SPkgs: map[string]*ssa.Package{}, PPkgs: map[string]*packages.Package{}, Tags: tags, Files: map[string][]byte{}}
	if len(pkgs) > 0 {
		p.Fset = pkgs[0].Fset
	}
	for i, sp := range spkgs {
		if sp == nil {
			continue
		}
		name := sp.Pkg.Name()
		if strings.HasSuffix(name, "_test") || name == "main" {
			continue
		}
		p.SPkgs[name] = sp
		p.PPkgs[name] = pkgs[i]
		for _, m := range sp.Members {
			switch mm := m.(type) {
			case *ssa.Function:
				p.ByKey[name+"."+mm.Name()] = mm
				p.addAnon(name, mm)
			case *ssa.Type:
				if named, ok := types.Unalias(mm.Type()).(*types.Named); ok {
					// methods of (possibly generic) named types, by declaration
					for j := 0; j < named.NumMethods(); j++ {
						if fn := prog.FuncValue(named.Method(j)); fn != nil && fn.Synthetic == "" {
							key := name + "." + funcKey(fn)
							if _, ok := p.ByKey[key]; !ok {
								p.ByKey[key] = fn
								p.addAnon(name, fn)
							}
						}
					}
				}
				for _, t := range []types.Type{mm.Type(), types.NewPointer(mm.Type())} {
					ms := prog.MethodSets.MethodSet(t)
					for j := 0; j < ms.Len(); j++ {
						fn := prog.MethodValue(ms.At(j))
						if fn == nil || fn.Synthetic != "" {
							continue
						}
						key := name + "." + funcKey(fn)
						if _, ok := p.ByKey[key]; !ok {
							p.ByKey[key] = fn
							p.addAnon(name, fn)
						}
					}
				}
			}
		}
	}
	return p, nil
}

func (p *Program) addAnon(pkg string, fn *ssa.Function) {
	for _, af := range fn.AnonFuncs {
		p.ByKey[pkg+"."+funcKey(af)] = af
		p.addAnon(pkg, af)
	}
}

// funcKey: "(*MemFile).Read", "(OSType).String", "CopyFileHash", "CopyFileHash$1".
func funcKey(fn *ssa.Function) string {
	if fn.Parent() != nil {
		return funcKey(fn.Parent()) + fn.Name()[strings.LastIndex(fn.Name(), "$"):]
	}
	if recv := fn.Signature.Recv(); recv != nil {
		t := recv.Type()
		star := ""
		if pt, ok := t.(*types.Pointer); ok {
			t = pt.Elem()
			star = "*"
		}
		if n, ok := types.Unalias(t).(*types.Named); ok {
			return "(" + star + n.Obj().Name() + ")." + fn.Name()
		}
	}
	return fn.Name()
}

// fullKey: package name + "." + funcKey.
func fullKey(fn *ssa.Function) string {
	if fn.Pkg != nil {
		return fn.Pkg.Pkg.Name() + "." + funcKey(fn)
	}
	if fn.Origin() != nil && fn.Origin().Pkg != nil {
		return fn.Origin().Pkg.Pkg.Name() + "." + funcKey(fn.Origin())
	}
	return fn.String()
}

func (p *Program) src(pos token.Pos, end token.Pos) string {
	if !pos.IsValid() || !end.IsValid() {
		return ""
	}
	a, b := p.Fset.Position(pos), p.Fset.Position(end)
	p.fmu.Lock()
	defer p.fmu.Unlock()
	data, ok := p.Files[a.Filename]
	if !ok {
		d, err := os.ReadFile(a.Filename)
		if err != nil {
			return ""
		}
		p.Files[a.Filename] = d
		data = d
	}
	if a.Offset < 0 || b.Offset > len(data) || a.Offset > b.Offset {
		return ""
	}
	return string(data[a.Offset:b.Offset])
}

func (p *Program) exprText(e ast.Node) string {
	if e == nil {
		return ""
	}
	s := p.src(e.Pos(), e.End())
	return strings.Join(strings.Fields(s), " ")
}

// moduleFunc reports whether fn belongs to the module under verification.
func (p *Program) moduleFunc(fn *ssa.Function) bool {
	pk := fn.Pkg
	if pk == nil && fn.Origin() != nil {
		pk = fn.Origin().Pkg
	}
	if pk == nil && fn.Parent() != nil {
		return p.moduleFunc(fn.Parent())
	}
	if pk == nil {
		return false
	}
	return strings.HasPrefix(pk.Pkg.Path(), "github.com/avfs/avfs")
}

func (p *Program) keys() []string {
	var ks []string
	for k := range p.ByKey {
		ks = append(ks, k)
	}
	sort.Strings(ks)
	return ks
}

// implementers of an interface among the named types of a package (closed world for unexported interfaces).
func (p *Program) implementers(pkg *types.Package, iface *types.Interface) []types.Type {
	var out []types.Type
	scope := pkg.Scope()
	names := scope.Names()
	sort.Strings(names)
	for _, n := range names {
		tn, ok := scope.Lookup(n).(*types.TypeName)
		if !ok {
			continue
		}
		t := tn.Type()
		if types.IsInterface(t) {
			continue
		}
		if types.Implements(t, iface) {
			out = append(out, t)
		} else if pt := types.NewPointer(t); types.Implements(pt, iface) {
			out = append(out, pt)
		}
	}
	return out
}

// fnPkg: the types.Package a function (possibly an instance of a generic, or a closure) belongs to.
func fnPkg(fn *ssa.Function) *types.Package {
	for f := fn; f != nil; f = f.Parent() {
		if f.Pkg != nil {
			return f.Pkg.Pkg
		}
		if f.Origin() != nil && f.Origin().Pkg != nil {
			return f.Origin().Pkg.Pkg
		}
	}
	return nil
}
