package main

// Term layer: SMT-LIB terms as strings with a sort tag, scripts (declarations,
// assumptions, checks) and small helpers.  No simplification beyond constant
// folding of the obvious cases, so what the solver sees is what the executor built.

import (
	"fmt"
	"math/big"
	"strings"
)

type Sort string

const (
	SBool  Sort = "Bool"
	SInt   Sort = "Int"
	SRef   Sort = "Ref"
	SStr   Sort = "Str"
	SIface Sort = "Iface"
	SFn    Sort = "Int" // function values are identified by integers
)

func SBV(n int) Sort       { return Sort(fmt.Sprintf("(_ BitVec %d)", n)) }
func SArr(i, e Sort) Sort  { return Sort(fmt.Sprintf("(Array %s %s)", i, e)) }
func (s Sort) IsBV() bool  { return strings.HasPrefix(string(s), "(_ BitVec") }
func (s Sort) IsArr() bool { return strings.HasPrefix(string(s), "(Array") }
func (s Sort) BVWidth() int {
	var n int
	fmt.Sscanf(string(s), "(_ BitVec %d)", &n)
	return n
}

type Term struct {
	S    string
	Sort Sort
}

func (t Term) String() string { return t.S }

var (
	TTrue  = Term{"true", SBool}
	TFalse = Term{"false", SBool}
	TNull  = Term{"null", SRef}
	TINil  = Term{"inil", SIface}
)

func IntLit(n int64) Term { return IntLitBig(big.NewInt(n)) }

func IntLitBig(n *big.Int) Term {
	if n.Sign() < 0 {
		return Term{"(- " + new(big.Int).Neg(n).String() + ")", SInt}
	}
	return Term{n.String(), SInt}
}

func BVLit(n *big.Int, w int) Term {
	m := new(big.Int).Set(n)
	if m.Sign() < 0 {
		m.Add(m, new(big.Int).Lsh(big.NewInt(1), uint(w)))
	}
	m.And(m, new(big.Int).Sub(new(big.Int).Lsh(big.NewInt(1), uint(w)), big.NewInt(1)))
	return Term{fmt.Sprintf("(_ bv%s %d)", m.String(), w), SBV(w)}
}

func app(sort Sort, f string, args ...Term) Term {
	var b strings.Builder
	b.WriteString("(")
	b.WriteString(f)
	for _, a := range args {
		b.WriteString(" ")
		b.WriteString(a.S)
	}
	b.WriteString(")")
	return Term{b.String(), sort}
}

func Not(a Term) Term {
	switch a.S {
	case "true":
		return TFalse
	case "false":
		return TTrue
	}
	if strings.HasPrefix(a.S, "(not ") {
		return Term{a.S[5 : len(a.S)-1], SBool}
	}
	return app(SBool, "not", a)
}

func And(ts ...Term) Term {
	var keep []Term
	for _, t := range ts {
		if t.S == "true" {
			continue
		}
		if t.S == "false" {
			return TFalse
		}
		keep = append(keep, t)
	}
	switch len(keep) {
	case 0:
		return TTrue
	case 1:
		return keep[0]
	}
	return app(SBool, "and", keep...)
}

func Or(ts ...Term) Term {
	var keep []Term
	for _, t := range ts {
		if t.S == "false" {
			continue
		}
		if t.S == "true" {
			return TTrue
		}
		keep = append(keep, t)
	}
	switch len(keep) {
	case 0:
		return TFalse
	case 1:
		return keep[0]
	}
	return app(SBool, "or", keep...)
}

func Implies(a, b Term) Term {
	if a.S == "true" {
		return b
	}
	if a.S == "false" || b.S == "true" {
		return TTrue
	}
	return app(SBool, "=>", a, b)
}

func Eq(a, b Term) Term {
	if a.S == b.S {
		return TTrue
	}
	if a.Sort == SInt && b.Sort == SInt && isNumeral(a.S) && isNumeral(b.S) {
		return TFalse // distinct numerals
	}
	return app(SBool, "=", a, b)
}

func Ite(c, a, b Term) Term {
	if c.S == "true" {
		return a
	}
	if c.S == "false" {
		return b
	}
	if a.S == b.S {
		return a
	}
	return app(a.Sort, "ite", c, a, b)
}

func Select(arr, idx Term) Term {
	es := elemSort(arr.Sort)
	return app(es, "select", arr, idx)
}

func Store(arr, idx, v Term) Term { return app(arr.Sort, "store", arr, idx, v) }

// elemSort returns the element sort of an (Array I E) sort.
func elemSort(s Sort) Sort {
	_, e := splitArr(s)
	return e
}

func idxSort(s Sort) Sort {
	i, _ := splitArr(s)
	return i
}

func splitArr(s Sort) (Sort, Sort) {
	str := string(s)
	if !strings.HasPrefix(str, "(Array ") {
		panic("not an array sort: " + str)
	}
	body := str[len("(Array ") : len(str)-1]
	// first component: either atom or parenthesised
	depth := 0
	for i, c := range body {
		switch c {
		case '(':
			depth++
		case ')':
			depth--
		case ' ':
			if depth == 0 {
				return Sort(body[:i]), Sort(body[i+1:])
			}
		}
	}
	panic("bad array sort: " + str)
}

// mangle makes an SMT-LIB simple symbol out of an arbitrary Go-ish name; every
// emitted identifier is prefixed so that it cannot clash with a solver keyword.
func mangle(s string) string {
	var b strings.Builder
	b.WriteString("v_")
	for _, c := range s {
		switch {
		case c >= 'a' && c <= 'z', c >= 'A' && c <= 'Z', c >= '0' && c <= '9', c == '_', c == '.':
			b.WriteRune(c)
		case c == '/':
			b.WriteString("!")
		case c == '*':
			b.WriteString("$p")
		case c == '#':
			b.WriteString("$h")
		case c == '[':
			b.WriteString("$l")
		case c == ']':
			b.WriteString("$r")
		case c == ' ':
			b.WriteString("$_")
		default:
			fmt.Fprintf(&b, "$%x", c)
		}
	}
	return b.String()
}

// ---------------------------------------------------------------------------
// Script: what is sent to the solvers for one path.

type ItemKind int

const (
	ItDecl ItemKind = iota
	ItAssert
	ItCheck
	ItComment
)

type Item struct {
	Kind ItemKind
	Text string // Decl: full command; Assert: term; Check: goal term (to be negated); Comment: text
	Obl  *Obligation
}

// Obligation is one named proof obligation instance on one path.
type Obligation struct {
	ID     string   // stable identity: pkg.Func / kind / label
	Props  []string // property ids it serves
	Kind   string
	Fn     string
	Detail string // human-readable: source position, path description
	Path   string // path description (block sequence)
	Goal   string
}

func isNumeral(s string) bool {
	if s == "" {
		return false
	}
	if strings.HasPrefix(s, "(- ") && strings.HasSuffix(s, ")") {
		s = s[3 : len(s)-1]
	}
	for _, c := range s {
		if c < '0' || c > '9' {
			return false
		}
	}
	return true
}
