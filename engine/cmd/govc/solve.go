package main

// Discharging obligations: scripts -> SMT-LIB -> z3 4.8.12 / z3-new 5.1.0 / cvc5 1.0.x.

import (
	"bytes"
	"context"
	"crypto/sha256"
	"fmt"
	"os"
	"os/exec"
	"path/filepath"
	"sort"
	"strings"
	"sync"
	"time"
)

type Solver struct {
	Name string
	Cmd  []string
}

func solvers(timeoutMs int) []Solver {
	return []Solver{
		{"z3-new", []string{"z3-new", "-in", fmt.Sprintf("-t:%d", timeoutMs)}},
		{"z3", []string{"z3", "-in", fmt.Sprintf("-t:%d", timeoutMs)}},
		{"cvc5", []string{"cvc5", "--incremental", "--lang=smt2", fmt.Sprintf("--tlimit-per=%d", timeoutMs)}},
	}
}

type OblInstance struct {
	Obl     *Obligation
	Unit    string
	Status  string // unsat | sat | unknown | timeout | error
	Solver  string
	Ms      int64
	Outputs map[string]string // solver -> verbatim answer for failed instances
	Query   string            // standalone query (failed instances only)
	Model   string
	PathEnd string
}

type SolveStats struct {
	Queries   int
	Wins      map[string]int
	TotalMs   int64
	MaxMs     int64
	Dups      int
	ToolError []string
}

type Discharger struct {
	TimeoutMs int
	Thorough  bool
	Workers   int
	Dir       string // scratch dir for failed queries
	NoRace    bool   // probes: one solver, no retry
	Claimed   func(id string) bool // obligations worth the full timeout and the solver race
	Skip      func(id string) bool // obligations not attempted in this tier (known undecided, unclaimed)
	Skipped   map[string]bool
	mu        sync.Mutex
	Stats     SolveStats
	seen      map[[32]byte]bool
}

func NewDischarger(timeoutMs int, thorough bool) *Discharger {
	return &Discharger{TimeoutMs: timeoutMs, Thorough: thorough, Workers: 14, Stats: SolveStats{Wins: map[string]int{}}, seen: map[[32]byte]bool{}}
}

func header(bv bool) string {
	return "(set-option :produce-models true)\n(set-logic ALL)\n"
}

// buildIncremental renders one path as an incremental script; returns the checks in order.
func (d *Discharger) buildIncremental(u *UnitResult, ps *PathScript) (string, []*Item, []string) {
	var b strings.Builder
	b.WriteString(header(u.BV))
	b.WriteString(u.Preamble)
	for _, dcl := range u.Decls {
		b.WriteString(dcl)
		b.WriteString("\n")
	}
	var checks []*Item
	var standalone []string
	h := sha256.New()
	h.Write([]byte(u.Key))
	var prefix strings.Builder
	for i := range ps.Items {
		it := &ps.Items[i]
		switch it.Kind {
		case ItAssert:
			fmt.Fprintf(&b, "(assert %s)\n", it.Text)
			fmt.Fprintf(&prefix, "(assert %s)\n", it.Text)
			h.Write([]byte(it.Text))
			h.Write([]byte{0})
		case ItComment:
			fmt.Fprintf(&b, "; %s\n", it.Text)
		case ItCheck:
			if d.Skip != nil && d.Skip(it.Obl.ID) {
				d.mu.Lock()
				if d.Skipped == nil {
					d.Skipped = map[string]bool{}
				}
				d.Skipped[it.Obl.ID] = true
				d.mu.Unlock()
				continue
			}
			hh := sha256.New()
			hh.Write(h.Sum(nil))
			hh.Write([]byte(it.Obl.ID))
			hh.Write([]byte(it.Text))
			var key [32]byte
			copy(key[:], hh.Sum(nil))
			d.mu.Lock()
			dup := d.seen[key]
			d.seen[key] = true
			if dup {
				d.Stats.Dups++
			}
			d.mu.Unlock()
			if dup {
				continue
			}
			if d.Claimed != nil {
				tmo := d.TimeoutMs
				if !d.Claimed(it.Obl.ID) {
					tmo = 1500
				}
				fmt.Fprintf(&b, "(set-option :timeout %d)\n", tmo)
			}
			fmt.Fprintf(&b, "; obligation %s\n(push 1)\n(assert (not %s))\n(check-sat)\n(pop 1)\n", it.Obl.ID, it.Text)
			checks = append(checks, it)
			standalone = append(standalone, prefix.String()+fmt.Sprintf("(assert (not %s))\n", it.Text))
		}
	}
	return b.String(), checks, standalone
}

func runSolver(s Solver, input string, timeout time.Duration) (string, int64, error) {
	ctx, cancel := context.WithTimeout(context.Background(), timeout)
	defer cancel()
	cmd := exec.CommandContext(ctx, s.Cmd[0], s.Cmd[1:]...)
	cmd.Stdin = strings.NewReader(input)
	var out bytes.Buffer
	cmd.Stdout = &out
	cmd.Stderr = &out
	t0 := time.Now()
	err := cmd.Run()
	ms := time.Since(t0).Milliseconds()
	if ctx.Err() != nil {
		return out.String(), ms, fmt.Errorf("wall-clock timeout")
	}
	// z3 4.8.12 exits 1 after (get-model) on unsat; ignore exit status, parse output
	_ = err
	return out.String(), ms, nil
}

func answers(out string) []string {
	var as []string
	for _, l := range strings.Split(out, "\n") {
		l = strings.TrimSpace(l)
		switch {
		case l == "sat" || l == "unsat" || l == "unknown" || l == "timeout":
			as = append(as, l)
		case strings.HasPrefix(l, "(error"):
			as = append(as, "error: "+l)
		}
	}
	return as
}

// DischargeUnit runs all path scripts of a unit; returns one instance per (non-duplicate) check.
// DischargeUnit runs all path scripts of a unit (one solver process per path; sharing prefixes in one
// incremental process with nested push/pop was measured to be slower with z3); returns one instance
// per (non-duplicate) check.
func (d *Discharger) DischargeUnit(u *UnitResult) []*OblInstance {
	var all []*OblInstance
	wgCount := 0
	var amu sync.Mutex
	sem := make(chan struct{}, d.Workers)
	var wg sync.WaitGroup
	sv := solvers(d.TimeoutMs)
	for _, ps := range u.Scripts {
		script, checks, standalone := d.buildIncremental(u, ps)
		if len(checks) == 0 {
			continue
		}
		if dd := os.Getenv("GOVC_DUMP_SCRIPTS"); dd != "" {
			os.MkdirAll(dd, 0o755)
			os.WriteFile(filepath.Join(dd, fmt.Sprintf("%s.%d.smt2", mangle(u.Key), wgCount)), []byte(script), 0o644)
			wgCount++
		}
		wg.Add(1)
		sem <- struct{}{}
		go func(ps *PathScript, script string, checks []*Item, standalone []string) {
			defer wg.Done()
			defer func() { <-sem }()
			insts := d.runScript(u, ps, sv, script, checks, standalone)
			amu.Lock()
			all = append(all, insts...)
			amu.Unlock()
		}(ps, script, checks, standalone)
	}
	wg.Wait()
	return all
}

func (d *Discharger) runScript(u *UnitResult, ps *PathScript, sv []Solver, script string, checks []*Item, standalone []string) []*OblInstance {
	wall := time.Duration(d.TimeoutMs*(len(checks)+2))*time.Millisecond + 20*time.Second
	primary := sv[0]
	out, ms, err := runSolver(primary, script, wall)
	as := answers(out)
	insts := make([]*OblInstance, len(checks))
	for i, it := range checks {
		insts[i] = &OblInstance{Obl: it.Obl, Unit: u.Key, Status: "unknown", Solver: primary.Name, PathEnd: ps.End}
		if i < len(as) {
			insts[i].Status = as[i]
		} else if err != nil {
			insts[i].Status = "timeout"
		}
	}
	d.mu.Lock()
	d.Stats.Queries += len(checks)
	d.Stats.TotalMs += ms
	if ms > d.Stats.MaxMs {
		d.Stats.MaxMs = ms
	}
	d.mu.Unlock()
	pre := header(u.BV) + u.Preamble + strings.Join(u.Decls, "\n") + "\n"
	var wg sync.WaitGroup
	raced := 0
	for i, in := range insts {
		if d.NoRace || (d.Claimed != nil && !d.Claimed(in.Obl.ID)) {
			continue
		}
		if in.Status == "unsat" && !d.Thorough {
			d.mu.Lock()
			d.Stats.Wins[primary.Name]++
			d.mu.Unlock()
			continue
		}
		raced++
		if raced > 6 && !d.Thorough {
			// enough failing obligations on this path to report; do not spend solver time on the rest
			in.Outputs = map[string]string{primary.Name: in.Status}
			in.Query = pre + standalone[i] + "(check-sat)\n"
			continue
		}
		wg.Add(1)
		go func(i int, in *OblInstance) {
			defer wg.Done()
			d.raceOne(sv, primary, pre+standalone[i]+"(check-sat)\n", in)
		}(i, in)
	}
	wg.Wait()
	return insts
}

// raceOne: the other solvers (and the primary again, fresh context) on the standalone query.
func (d *Discharger) raceOne(sv []Solver, primary Solver, q string, in *OblInstance) {
	in.Query = q
	in.Outputs = map[string]string{primary.Name: in.Status}
	type res struct {
		name string
		ans  string
		ms   int64
	}
	others := sv[1:]
	if in.Status != "unsat" && in.Status != "sat" {
		others = sv
	}
	ch := make(chan res, len(sv))
	for _, s := range others {
		go func(s Solver) {
			o, ms, err := runSolver(s, q, time.Duration(d.TimeoutMs)*time.Millisecond+10*time.Second)
			a := answers(o)
			ans := "unknown"
			if len(a) > 0 {
				ans = a[0]
			} else if err != nil {
				ans = "timeout"
			}
			ch <- res{s.Name, ans, ms}
		}(s)
	}
	final := in.Status
	for range others {
		r := <-ch
		in.Outputs[r.name] = r.ans
		d.mu.Lock()
		d.Stats.Queries++
		d.Stats.TotalMs += r.ms
		d.mu.Unlock()
		if d.Thorough {
			continue
		}
		if r.ans == "unsat" && final != "sat" {
			final = "unsat"
			in.Solver = r.name
		}
		if r.ans == "sat" {
			final = "sat"
			in.Solver = r.name
		}
	}
	if d.Thorough {
		nuns, nsat := 0, 0
		for _, a := range in.Outputs {
			if a == "unsat" {
				nuns++
			}
			if a == "sat" {
				nsat++
			}
		}
		switch {
		case nsat > 0 && nuns > 0:
			final = "error"
			d.mu.Lock()
			d.Stats.ToolError = append(d.Stats.ToolError, "solver disagreement on "+in.Obl.ID)
			d.mu.Unlock()
		case nsat > 0:
			final = "sat"
		case nuns > 0:
			final = "unsat"
		default:
			final = "unknown"
		}
	}
	in.Status = final
	if final == "unsat" {
		d.mu.Lock()
		d.Stats.Wins[in.Solver]++
		d.mu.Unlock()
		in.Query = ""
	}
}

func indexOfSolver(name string) int {
	for i, s := range solvers(1) {
		if s.Name == name {
			return i
		}
	}
	return 0
}

// getModel re-runs a failed standalone query asking for values of the given terms.
func getModel(query string, terms []string, timeoutMs int) (map[string]string, string) {
	if len(terms) == 0 {
		return nil, ""
	}
	q := strings.TrimSuffix(query, "(check-sat)\n") + "(check-sat)\n(get-value (" + strings.Join(terms, " ") + "))\n"
	for _, s := range solvers(timeoutMs)[:2] {
		out, _, _ := runSolver(s, q, time.Duration(timeoutMs)*time.Millisecond+5*time.Second)
		as := answers(out)
		if len(as) > 0 && as[0] == "sat" {
			i := strings.Index(out, "(")
			if i < 0 {
				continue
			}
			return parseGetValue(out[i:]), s.Name
		}
	}
	return nil, ""
}

// parseGetValue parses "((t1 v1) (t2 v2) ...)" into a map from term text to value text.
func parseGetValue(s string) map[string]string {
	res := map[string]string{}
	toks := sexpr(s)
	if len(toks) == 0 {
		return res
	}
	top, ok := toks[0].([]any)
	if !ok {
		return res
	}
	for _, p := range top {
		pair, ok := p.([]any)
		if !ok || len(pair) != 2 {
			continue
		}
		res[sexprString(pair[0])] = sexprString(pair[1])
	}
	return res
}

func sexpr(s string) []any {
	var stack [][]any
	cur := []any{}
	i := 0
	for i < len(s) {
		c := s[i]
		switch {
		case c == '(':
			stack = append(stack, cur)
			cur = []any{}
			i++
		case c == ')':
			if len(stack) == 0 {
				return cur
			}
			done := cur
			cur = stack[len(stack)-1]
			stack = stack[:len(stack)-1]
			cur = append(cur, done)
			i++
		case c == ' ' || c == '\n' || c == '\t' || c == '\r':
			i++
		case c == '|':
			j := strings.IndexByte(s[i+1:], '|')
			if j < 0 {
				return cur
			}
			cur = append(cur, s[i:i+j+2])
			i += j + 2
		case c == '"':
			j := i + 1
			for j < len(s) && s[j] != '"' {
				j++
			}
			cur = append(cur, s[i:min(j+1, len(s))])
			i = j + 1
		default:
			j := i
			for j < len(s) && !strings.ContainsRune("() \n\t\r", rune(s[j])) {
				j++
			}
			cur = append(cur, s[i:j])
			i = j
		}
	}
	return cur
}

func sexprString(x any) string {
	switch t := x.(type) {
	case string:
		return t
	case []any:
		var ps []string
		for _, e := range t {
			ps = append(ps, sexprString(e))
		}
		return "(" + strings.Join(ps, " ") + ")"
	}
	return ""
}

// Aggregate per obligation ID.
type OblResult struct {
	ID        string
	Props     []string
	Kind      string
	Fn        string
	Instances int
	Failed    []*OblInstance
	Status    string // discharged | failed
	Units     map[string]bool
}

func aggregate(insts []*OblInstance) map[string]*OblResult {
	res := map[string]*OblResult{}
	for _, in := range insts {
		r, ok := res[in.Obl.ID]
		if !ok {
			r = &OblResult{ID: in.Obl.ID, Props: in.Obl.Props, Kind: in.Obl.Kind, Fn: in.Obl.Fn, Status: "discharged", Units: map[string]bool{}}
			res[in.Obl.ID] = r
		}
		r.Units[in.Unit] = true
		r.Instances++
		for _, p := range in.Obl.Props {
			found := false
			for _, q := range r.Props {
				if p == q {
					found = true
				}
			}
			if !found {
				r.Props = append(r.Props, p)
			}
		}
		if in.Status != "unsat" {
			r.Status = "failed"
			r.Failed = append(r.Failed, in)
		}
	}
	return res
}

func sortedOblIDs(m map[string]*OblResult) []string {
	var ks []string
	for k := range m {
		ks = append(ks, k)
	}
	sort.Strings(ks)
	return ks
}

func dumpQuery(dir, name, q string) string {
	os.MkdirAll(dir, 0o755)
	p := filepath.Join(dir, name)
	os.WriteFile(p, []byte(q), 0o644)
	return p
}
