package main

// Symbolic execution of go/ssa function bodies: path enumeration over the cut control-flow
// graph (loops cut at their headers by invariants), callees by contract / inlining / havoc.

import (
	"fmt"
	"go/ast"
	"go/token"
	"go/types"
	"sort"
	"strings"

	"golang.org/x/tools/go/ast/astutil"
	"golang.org/x/tools/go/ssa"
)

type PathScript struct {
	Items []Item
	Desc  string
	End   string // return | panic | loopback | abort
}

type Exec struct {
	prog         *Program
	specs        *Specs
	enc          *Enc
	unit         *ssa.Function
	contract     *Contract
	heapSorts    map[string]Sort
	havocAllUsed bool
	scripts      []*PathScript
	maxPaths     int
	nPaths       int
	overflow     bool
	aborted      map[string]int // reason -> count
	frameSeq     int
	cellSeq      int
	eventSeq     int
	tmode        bool
	notes        []string
	clauseUsed   map[*Clause]int
	oblLabels    map[ssa.Instruction]string
	labelCount   map[string]int
	globals      map[string]Val
	assumeFalseAtExit bool
	known     []*KnownFinding
	entryHeld map[string][]Term
	extraProp string
	arrOf     map[string]string // heap array version -> array name
	closedIface map[string]bool
	topFrame  *Frame
	entryRegs map[ssa.Value]Val
}

type loopInfo struct {
	head    *ssa.BasicBlock
	ordinal int
	body    map[*ssa.BasicBlock]bool
	key     string
}

type Frame struct {
	id       int
	fn       *ssa.Function
	contract *Contract
	depth    int
	loops    map[*ssa.BasicBlock]*loopInfo
	parent   *Frame
	file     *ast.File
	top      bool
	recvDesc string
}

type Cont func(st *State, results []Val)

type pathAbort struct{ reason string }

func (x *Exec) abort(format string, args ...any) {
	panic(pathAbort{fmt.Sprintf(format, args...)})
}

func NewExec(prog *Program, specs *Specs, fn *ssa.Function, c *Contract) *Exec {
	bv := c != nil && c.Mode == "bv"
	x := &Exec{prog: prog, specs: specs, enc: NewEnc(bv), unit: fn, contract: c, heapSorts: map[string]Sort{}, maxPaths: 4000,
		aborted: map[string]int{}, clauseUsed: map[*Clause]int{}, oblLabels: map[ssa.Instruction]string{}, labelCount: map[string]int{}, globals: map[string]Val{}, arrOf: map[string]string{}, closedIface: map[string]bool{}}
	if c != nil {
		x.tmode = c.Tmode
	}
	return x
}

func (x *Exec) newFrame(fn *ssa.Function, parent *Frame) *Frame {
	x.frameSeq++
	fr := &Frame{id: x.frameSeq, fn: fn, parent: parent, loops: map[*ssa.BasicBlock]*loopInfo{}}
	if parent != nil {
		fr.depth = parent.depth + 1
	}
	fr.contract = x.specs.Funcs[fullKey(fn)]
	x.findLoops(fr)
	if fn.Pos().IsValid() || (fn.Syntax() != nil) {
		pos := fn.Pos()
		if !pos.IsValid() && fn.Syntax() != nil {
			pos = fn.Syntax().Pos()
		}
		for _, pp := range x.prog.Pkgs {
			for _, f := range pp.Syntax {
				if f.Pos() <= pos && pos < f.End() {
					fr.file = f
				}
			}
		}
	}
	x.labelInstrs(fr)
	return fr
}

// findLoops: natural loops of back edges, numbered in source order of their headers.
func (x *Exec) findLoops(fr *Frame) {
	fn := fr.fn
	var heads []*ssa.BasicBlock
	seen := map[*ssa.BasicBlock]bool{}
	for _, b := range fn.Blocks {
		for _, s := range b.Succs {
			if s.Dominates(b) {
				if !seen[s] {
					seen[s] = true
					heads = append(heads, s)
				}
			}
		}
	}
	sort.Slice(heads, func(i, j int) bool {
		pi, pj := blockPos(heads[i]), blockPos(heads[j])
		if pi != pj {
			return pi < pj
		}
		return heads[i].Index < heads[j].Index
	})
	for k, h := range heads {
		li := &loopInfo{head: h, ordinal: k, body: map[*ssa.BasicBlock]bool{h: true}, key: fmt.Sprintf("%s#loop%d", fullKey(fn), k)}
		// natural loop: all blocks that reach a back-edge source without passing through h
		var stack []*ssa.BasicBlock
		for _, p := range h.Preds {
			if h.Dominates(p) {
				stack = append(stack, p)
			}
		}
		for len(stack) > 0 {
			b := stack[len(stack)-1]
			stack = stack[:len(stack)-1]
			if li.body[b] {
				continue
			}
			li.body[b] = true
			stack = append(stack, b.Preds...)
		}
		fr.loops[h] = li
	}
}

func blockPos(b *ssa.BasicBlock) token.Pos {
	// position of the loop statement: the earliest valid position among the header's and
	// its predecessors' instructions is unreliable; use the first positioned instruction in the header.
	for _, in := range b.Instrs {
		if _, isPhi := in.(*ssa.Phi); isPhi {
			continue // a phi carries the position of its variable's declaration, not of the loop
		}
		if p := in.Pos(); p.IsValid() {
			return p
		}
	}
	return token.Pos(1<<30 + b.Index)
}

// labelInstrs assigns a stable label (source text + occurrence) to every instruction that
// can generate an obligation.
func (x *Exec) labelInstrs(fr *Frame) {
	fn := fr.fn
	for _, b := range fn.Blocks {
		for _, in := range b.Instrs {
			if _, done := x.oblLabels[in]; done {
				continue
			}
			var txt string
			switch in.(type) {
			case *ssa.IndexAddr, *ssa.Index, *ssa.Slice, *ssa.FieldAddr, *ssa.Field, *ssa.TypeAssert, *ssa.MapUpdate, *ssa.Panic, *ssa.Call, *ssa.Defer, *ssa.UnOp, *ssa.MakeSlice, *ssa.BinOp, *ssa.Store, *ssa.Lookup:
				txt = x.instrText(fr, in)
			default:
				continue
			}
			key := fullKey(fn) + "|" + fmt.Sprintf("%T", in) + "|" + txt
			x.labelCount[key]++
			if n := x.labelCount[key]; n > 1 {
				txt = fmt.Sprintf("%s #%d", txt, n)
			}
			x.oblLabels[in] = txt
		}
	}
}

func (x *Exec) instrText(fr *Frame, in ssa.Instruction) string {
	pos := in.Pos()
	if pos.IsValid() && fr.file != nil {
		path, _ := astutil.PathEnclosingInterval(fr.file, pos, pos)
		for _, n := range path {
			switch nn := n.(type) {
			case *ast.IndexExpr, *ast.SliceExpr, *ast.SelectorExpr, *ast.TypeAssertExpr, *ast.CallExpr, *ast.StarExpr, *ast.BinaryExpr, *ast.CompositeLit, *ast.UnaryExpr:
				t := x.prog.exprText(nn)
				if len(t) > 80 {
					t = t[:80]
				}
				return t
			case *ast.DeferStmt:
				return "defer " + x.prog.exprText(nn.Call.Fun)
			case *ast.AssignStmt, *ast.IncDecStmt, *ast.ReturnStmt, *ast.ExprStmt:
				t := x.prog.exprText(nn)
				if len(t) > 80 {
					t = t[:80]
				}
				return t
			}
		}
	}
	s := in.String()
	if v, ok := in.(ssa.Value); ok {
		s = v.Name() + " = " + s
	}
	return "ssa:" + s
}

// callSite returns the source text of the called function expression ("srcFs.OpenFile").
func (x *Exec) callSite(fr *Frame, in ssa.Instruction) string {
	pos := in.Pos()
	if !pos.IsValid() || fr.file == nil {
		return ""
	}
	path, _ := astutil.PathEnclosingInterval(fr.file, pos, pos)
	for _, n := range path {
		switch nn := n.(type) {
		case *ast.CallExpr:
			return x.prog.exprText(nn.Fun)
		case *ast.DeferStmt:
			return x.prog.exprText(nn.Call.Fun)
		case *ast.GoStmt:
			return x.prog.exprText(nn.Call.Fun)
		}
	}
	return ""
}

// ---------------------------------------------------------------------------

func (x *Exec) newObl(fn *ssa.Function, kind, label string, props []string, detail string) *Obligation {
	id := fmt.Sprintf("%s / %s / %s", fullKey(fn), kind, label)
	return &Obligation{ID: id, Props: props, Kind: kind, Fn: fullKey(fn), Detail: detail}
}

func (x *Exec) posStr(p token.Pos) string {
	if !p.IsValid() {
		return ""
	}
	ps := x.prog.Fset.Position(p)
	return fmt.Sprintf("%s:%d", strings.TrimPrefix(ps.Filename, "/repo/"), ps.Line)
}

// safety emits a generated safety obligation (tagged C07).
func (x *Exec) safety(fr *Frame, st *State, in ssa.Instruction, kind string, goal Term) {
	label := x.oblLabels[in]
	if label == "" {
		label = x.instrText(fr, in)
	}
	o := x.newObl(fr.fn, kind, label, x.safetyProps(), x.posStr(in.Pos()))
	st.check(o, goal)
}

// safetyProps: a panic violates C07 and every postcondition of the function being verified.
func (x *Exec) safetyProps() []string {
	props := []string{"C07"}
	if x.extraProp != "" {
		props = unionProps(props, []string{x.extraProp})
	}
	if x.contract != nil {
		for _, cl := range x.contract.Ensures {
			props = unionProps(props, cl.Props)
		}
	}
	return props
}

func (x *Exec) finish(st *State, end string) {
	x.nPaths++
	x.scripts = append(x.scripts, &PathScript{Items: st.items, Desc: strings.Join(st.path, ">"), End: end})
}

// val returns the symbolic value of an SSA value.
func (x *Exec) val(st *State, v ssa.Value) Val {
	switch vv := v.(type) {
	case *ssa.Const:
		if vv.Value == nil {
			z := x.enc.zeroVal(vv.Type())
			z.Typ = vv.Type()
			return z
		}
		r := x.constToVal(vv.Value, vv.Type())
		return r
	case *ssa.Function:
		return Val{K: VFunc, Fn: vv, T: x.enc.FnID(vv.String()), Typ: vv.Type()}
	case *ssa.Global:
		return Val{K: VGlobalPtr, Glob: vv, Typ: vv.Type()}
	case *ssa.Builtin:
		return Val{K: VFunc, Typ: vv.Type()}
	}
	r, ok := st.regs[v]
	if !ok {
		x.abort("no value for %s (%T) in %s", v.Name(), v, v.Parent())
	}
	return r
}

func (x *Exec) globalVal(st *State, pkg, name string, typ types.Type) Val {
	key := "G." + pkg + "." + name
	if v, ok := x.globals[key]; ok {
		return v
	}
	x.enc.trusted["package-level variables read by verified code are treated as immutable after initialisation"] = true
	var v Val
	if types.Identical(typ, types.Universe.Lookup("error").Type()) {
		// error sentinel: immutable, non-nil, identified by its own reference
		r := Term{mangle(key), SRef}
		x.enc.declare(r.S, SRef)
		x.enc.decls = append(x.enc.decls, fmt.Sprintf("(assert (not (= %s null)))", r.S))
		for _, o := range sortedKeys(x.globals) {
			ov := x.globals[o]
			if ov.K == VTerm && strings.HasPrefix(ov.T.S, "(iref ") {
				x.enc.decls = append(x.enc.decls, fmt.Sprintf("(assert (not (= %s %s)))", r.S, mangle(o)))
			}
		}
		x.enc.trusted["package-level error variables are non-nil and pairwise distinct"] = true
		v = Val{K: VTerm, T: app(SIface, "iref", IntLit(int64(x.enc.Tag(types.NewPointer(types.Typ[types.Invalid]))+1000)), r), Typ: typ}
		v.T = Term{fmt.Sprintf("(iref %d %s)", 1000000+len(x.globals), r.S), SIface}
	} else {
		sorts := x.enc.sortsOf(typ)
		var cs []Term
		for k, s := range sorts {
			n := mangle(compName(key, k))
			x.enc.declare(n, s)
			cs = append(cs, Term{n, s})
		}
		v, _ = x.enc.unflatten(typ, cs)
		for _, f := range x.enc.typeInv(typ, v) {
			x.enc.decls = append(x.enc.decls, "(assert "+f.S+")")
		}
		v.Typ = typ
	}
	x.globals[key] = v
	return v
}

// byteTerm converts an Int in [0,255] to the representation of a byte in the current mode.
func (x *Exec) byteTerm(t Term) Term {
	if x.enc.BV {
		x.enc.trusted["int2bv on string bytes (BV mode)"] = true
		return app(SBV(8), "(_ int2bv 8)", t)
	}
	return t
}

func (x *Exec) strConcat(a, b Term) Term {
	if a.S == "str_empty" {
		return b
	}
	if b.S == "str_empty" {
		return a
	}
	r := x.enc.UF("sconcat", SStr, a, b)
	x.enc.axiom("sconcat.len", "(forall ((a Str) (b Str)) (! (= (slen (v_sconcat a b)) (+ (slen a) (slen b))) :pattern ((v_sconcat a b))))")
	x.enc.axiom("sconcat.at", "(forall ((a Str) (b Str) (i Int)) (! (= (sat (v_sconcat a b) i) (ite (< i (slen a)) (sat a i) (sat b (- i (slen a))))) :pattern ((sat (v_sconcat a b) i))))")
	return r
}

func (x *Exec) strSub(s, lo, hi Term) Term {
	r := x.enc.UF("ssub", SStr, s, lo, hi)
	x.enc.axiom("ssub.len", "(forall ((s Str) (a Int) (b Int)) (! (=> (and (<= 0 a) (<= a b) (<= b (slen s))) (= (slen (v_ssub s a b)) (- b a))) :pattern ((v_ssub s a b))))")
	x.enc.axiom("ssub.at", "(forall ((s Str) (a Int) (b Int) (i Int)) (! (=> (and (<= 0 i) (< i (- b a))) (= (sat (v_ssub s a b) i) (sat s (+ a i)))) :pattern ((sat (v_ssub s a b) i))))")
	x.enc.axiom("ssub.id", "(forall ((s Str)) (! (= (v_ssub s 0 (slen s)) s) :pattern ((v_ssub s 0 (slen s)))))")
	return r
}

// ---------------------------------------------------------------------------
// Interfaces

func payloadKind(t types.Type) string {
	switch u := types.Unalias(t).Underlying().(type) {
	case *types.Pointer, *types.Map, *types.Chan, *types.Signature, *types.Struct, *types.Slice, *types.Array:
		_ = u
		return "ref"
	case *types.Basic:
		if u.Info()&types.IsString != 0 {
			return "str"
		}
		return "int"
	}
	return "ref"
}

func (x *Exec) makeIface(st *State, v Val, t types.Type) Term {
	if types.IsInterface(t) {
		return v.T
	}
	tag := x.enc.TagTerm(t)
	switch payloadKind(t) {
	case "str":
		return app(SIface, "istr", tag, v.T)
	case "int":
		pt := v.T
		if pt.Sort == SBool {
			pt = Ite(pt, IntLit(1), IntLit(0))
		}
		if pt.Sort.IsBV() {
			pt = app(SInt, "bv2nat", pt)
		}
		return app(SIface, "iint", tag, pt)
	}
	switch types.Unalias(t).Underlying().(type) {
	case *types.Struct, *types.Slice, *types.Array:
		// box: immutable copy in a fresh object
		r := st.newObject("box." + typeName(t))
		st.storeCell(t, r, v)
		return app(SIface, "iref", tag, r)
	case *types.Signature:
		return app(SIface, "iint", tag, st.storable(v).T)
	}
	st.publish(v)
	return app(SIface, "iref", tag, v.T)
}

func (x *Exec) ifaceIs(i Term, t types.Type) Term {
	if types.IsInterface(t) {
		it := t.Underlying().(*types.Interface)
		if it.Empty() {
			return Not(Eq(i, TINil))
		}
		// dynamic type implements t: decided per tag by an uninterpreted predicate
		return And(Not(Eq(i, TINil)), x.enc.UF("implements."+typeName(t)+"."+fmt.Sprint(x.enc.Tag(t)), SBool, app(SInt, "tagof", i)))
	}
	tag := x.enc.TagTerm(t)
	switch payloadKind(t) {
	case "str":
		return And(app(SBool, "(_ is istr)", i), Eq(app(SInt, "ktag", i), tag))
	case "int":
		return And(app(SBool, "(_ is iint)", i), Eq(app(SInt, "jtag", i), tag))
	}
	if _, ok := types.Unalias(t).Underlying().(*types.Signature); ok {
		return And(app(SBool, "(_ is iint)", i), Eq(app(SInt, "jtag", i), tag))
	}
	return And(app(SBool, "(_ is iref)", i), Eq(app(SInt, "itag", i), tag))
}

func (x *Exec) ifacePayload(i Term, t types.Type) Val {
	if types.IsInterface(t) {
		return Val{K: VTerm, T: i, Typ: t}
	}
	switch payloadKind(t) {
	case "str":
		return Val{K: VTerm, T: app(SStr, "pstr", i), Typ: t}
	case "int":
		p := app(SInt, "pint", i)
		if b, ok := types.Unalias(t).Underlying().(*types.Basic); ok && b.Info()&types.IsBoolean != 0 {
			return Val{K: VTerm, T: Eq(p, IntLit(1)), Typ: t}
		}
		if x.enc.BV {
			ii, _ := basicIntInfo(t)
			return Val{K: VTerm, T: app(SBV(ii.bits), fmt.Sprintf("(_ int2bv %d)", ii.bits), p), Typ: t}
		}
		return Val{K: VTerm, T: p, Typ: t}
	}
	return Val{K: VTerm, T: app(SRef, "pref", i), Typ: t}
}

// ---------------------------------------------------------------------------
// Running a function body

func (x *Exec) bindParams(st *State, fn *ssa.Function, args []Val) {
	for i, p := range fn.Params {
		v := args[i]
		if v.Typ == nil {
			v.Typ = p.Type()
		}
		st.regs[p] = v
	}
}

// runBody executes fn from its entry block; k receives each return.
func (x *Exec) runBody(fr *Frame, st *State, k Cont) {
	if len(fr.fn.Blocks) == 0 {
		x.abort("function %s has no body", fr.fn)
	}
	x.enterBlock(fr, st, fr.fn.Blocks[0], nil, k)
}

func (x *Exec) guard(st *State, f func()) {
	defer func() {
		if r := recover(); r != nil {
			if pa, ok := r.(pathAbort); ok {
				x.aborted[pa.reason]++
				st.comment("aborted: " + pa.reason)
				x.finish(st, "abort")
				return
			}
			if se, ok := r.(specErr); ok {
				x.aborted["spec: "+se.msg]++
				x.finish(st, "abort")
				return
			}
			panic(r)
		}
	}()
	f()
}

func (x *Exec) enterBlock(fr *Frame, st *State, b, pred *ssa.BasicBlock, k Cont) {
	if x.nPaths >= x.maxPaths {
		x.overflow = true
		return
	}
	st.path = append(st.path, fmt.Sprintf("%d", b.Index))
	if li, ok := fr.loops[b]; ok && pred != nil {
		if li.body[pred] && b.Dominates(pred) {
			// back edge: invariant must be re-established, variant must decrease; path ends
			x.bindPhis(fr, st, b, pred)
			x.checkLoopInv(fr, st, li, "inv-step")
			x.checkLoopStep(fr, st, li)
			x.checkLoopLocks(fr, st, li)
			x.checkLoopFrame(fr, st, li)
			x.checkVariant(fr, st, li)
			x.finish(st, "loopback")
			return
		}
		// loop entry
		x.bindPhis(fr, st, b, pred)
		x.checkLoopInv(fr, st, li, "inv-init")
		x.havocLoop(fr, st, li)
		x.assumeLoopInv(fr, st, li)
		x.snapVariant(fr, st, li)
		x.execFrom(fr, st, b, x.firstNonPhi(b), k)
		return
	}
	if _, ok := fr.loops[b]; ok && pred == nil {
		x.abort("loop header is the entry block")
	}
	x.bindPhis(fr, st, b, pred)
	x.execFrom(fr, st, b, x.firstNonPhi(b), k)
}

func (x *Exec) firstNonPhi(b *ssa.BasicBlock) int {
	for i, in := range b.Instrs {
		if _, ok := in.(*ssa.Phi); !ok {
			return i
		}
	}
	return len(b.Instrs)
}

func (x *Exec) bindPhis(fr *Frame, st *State, b, pred *ssa.BasicBlock) {
	if pred == nil {
		return
	}
	idx := -1
	for i, p := range b.Preds {
		if p == pred {
			idx = i
			break
		}
	}
	// evaluate all phis simultaneously
	var vals []Val
	var phis []*ssa.Phi
	for _, in := range b.Instrs {
		phi, ok := in.(*ssa.Phi)
		if !ok {
			break
		}
		v := x.val(st, phi.Edges[idx])
		v.Typ = phi.Type()
		vals = append(vals, v)
		phis = append(phis, phi)
	}
	for i, phi := range phis {
		st.regs[phi] = vals[i]
		x.namePhi(fr, st, phi)
	}
}

// namePhi: after a merge the source variable is held by the phi (spec expressions refer to variables by name).
func (x *Exec) namePhi(fr *Frame, st *State, phi *ssa.Phi) {
	if phi.Comment == "" || phi.Comment == "rangeindex" {
		return
	}
	if st.names == nil {
		st.names = map[string]ssa.Value{}
	}
	st.names[fmt.Sprintf("%d.%s", fr.id, phi.Comment)] = phi
}

func (x *Exec) execFrom(fr *Frame, st *State, b *ssa.BasicBlock, i int, k Cont) {
	for ; i < len(b.Instrs); i++ {
		in := b.Instrs[i]
		switch t := in.(type) {
		case *ssa.DebugRef:
			// remember which SSA value currently holds each source variable (for loop invariants)
			if id, ok := t.Expr.(*ast.Ident); ok && !t.IsAddr {
				if st.names == nil {
					st.names = map[string]ssa.Value{}
				}
				st.names[fmt.Sprintf("%d.%s", fr.id, id.Name)] = t.X
			}
			continue
		case *ssa.Call:
			idx := i
			x.doCall(fr, st, t, t.Common(), func(st2 *State, res []Val) {
				var rv Val
				switch len(res) {
				case 0:
					rv = Val{K: VTuple}
				case 1:
					rv = res[0]
				default:
					rv = Val{K: VTuple, Parts: res}
				}
				rv.Typ = t.Type()
				st2.regs[t] = rv
				x.execFrom(fr, st2, b, idx+1, k)
			})
			return
		case *ssa.Defer:
			d := deferred{call: t.Common(), site: t}
			c := t.Common()
			if c.IsInvoke() {
				rv := x.val(st, c.Value)
				d.recv = &rv
			} else {
				d.fn = x.val(st, c.Value)
			}
			for _, a := range c.Args {
				d.args = append(d.args, x.val(st, a))
			}
			st.defers[fr.id] = append(st.defers[fr.id], d)
		case *ssa.RunDefers:
			idx := i
			x.runDefers(fr, st, func(st2 *State) {
				x.execFrom(fr, st2, b, idx+1, k)
			})
			return
		case *ssa.Go:
			x.abort("go statement")
		case *ssa.If:
			c := x.val(st, t.Cond).T
			st2 := st.clone()
			x.guard(st, func() {
				st.assume(c)
				x.enterBlock(fr, st, b.Succs[0], b, k)
			})
			x.guard(st2, func() {
				st2.assume(Not(c))
				x.enterBlock(fr, st2, b.Succs[1], b, k)
			})
			return
		case *ssa.Jump:
			x.enterBlock(fr, st, b.Succs[0], b, k)
			return
		case *ssa.Return:
			var res []Val
			for _, r := range t.Results {
				res = append(res, x.val(st, r))
			}
			k(st, res)
			return
		case *ssa.Panic:
			// a reachable explicit panic is a C07 obligation
			x.safety(fr, st, t, "panic", TFalse)
			x.finish(st, "panic")
			return
		default:
			x.step(fr, st, in)
		}
	}
}

func (x *Exec) runDefers(fr *Frame, st *State, k func(*State)) {
	ds := st.defers[fr.id]
	if len(ds) == 0 {
		k(st)
		return
	}
	d := ds[len(ds)-1]
	st.defers[fr.id] = ds[:len(ds)-1]
	x.doCallVals(fr, st, d.site, d.call, d.fn, d.recv, d.args, func(st2 *State, _ []Val) {
		x.runDefers(fr, st2, k)
	})
}

// step executes one non-control instruction.
func (x *Exec) step(fr *Frame, st *State, in ssa.Instruction) {
	enc := x.enc
	switch t := in.(type) {
	case *ssa.Alloc:
		x.execAlloc(fr, st, t)
	case *ssa.BinOp:
		a, b := x.val(st, t.X), x.val(st, t.Y)
		st.regs[t] = x.binop(fr, st, t, t.Op, a, b, t.X.Type(), t.Y.Type(), t.Type())
	case *ssa.UnOp:
		switch t.Op {
		case token.MUL:
			p := x.val(st, t.X)
			v := x.load(fr, st, t, p, t.X.Type())
			v.Typ = t.Type()
			st.regs[t] = v
		case token.NOT:
			v := x.val(st, t.X)
			st.regs[t] = Val{K: VTerm, T: Not(v.T), Typ: t.Type()}
		case token.SUB:
			v := x.val(st, t.X)
			st.regs[t] = Val{K: VTerm, T: enc.IntNeg(v.T, t.Type()), Typ: t.Type()}
		case token.XOR:
			v := x.val(st, t.X)
			st.regs[t] = Val{K: VTerm, T: enc.IntNot(v.T, t.Type()), Typ: t.Type()}
		default:
			x.abort("unary operator %s", t.Op)
		}
	case *ssa.Store:
		p := x.val(st, t.Addr)
		v := x.val(st, t.Val)
		x.store(fr, st, t, p, v, t.Addr.Type())
	case *ssa.FieldAddr:
		base := x.val(st, t.X)
		pt := types.Unalias(t.X.Type()).Underlying().(*types.Pointer)
		stT := pt.Elem()
		sstruct := types.Unalias(stT).Underlying().(*types.Struct)
		f := sstruct.Field(t.Field)
		ref := x.refOf(st, base)
		x.safety(fr, st, t, "nil", Not(Eq(ref, TNull)))
		if isStructType(f.Type()) && !isMutexType(f.Type()) {
			st.regs[t] = Val{K: VTerm, T: st.subRef(stT, f, ref), Typ: t.Type()}
		} else {
			st.regs[t] = Val{K: VFieldPtr, T: ref, ST: stT, FV: f, Typ: f.Type(), Arr: fieldArrName(stT, f)}
		}
	case *ssa.Field:
		base := x.val(st, t.X)
		if base.K != VStruct {
			x.abort("Field on non-struct value")
		}
		v := base.Parts[t.Field]
		v.Typ = t.Type()
		st.regs[t] = v
	case *ssa.IndexAddr:
		base := x.val(st, t.X)
		idx := x.val(st, t.Index)
		it := x.toIntIndex(idx, t.Index.Type())
		switch u := types.Unalias(t.X.Type()).Underlying().(type) {
		case *types.Slice:
			x.safety(fr, st, t, "bounds", And(app(SBool, "<=", IntLit(0), it), app(SBool, "<", it, base.Parts[2].T)))
			st.regs[t] = Val{K: VElemPtr, Parts: base.Parts, Idx: it, Typ: u.Elem()}
		case *types.Pointer:
			at := types.Unalias(u.Elem()).Underlying().(*types.Array)
			ref := x.refOf(st, base)
			x.safety(fr, st, t, "nil", Not(Eq(ref, TNull)))
			x.safety(fr, st, t, "bounds", And(app(SBool, "<=", IntLit(0), it), app(SBool, "<", it, IntLit(at.Len()))))
			st.regs[t] = Val{K: VElemPtr, Parts: []Val{TV(ref), TV(IntLit(0)), TV(IntLit(at.Len())), TV(IntLit(at.Len()))}, Idx: it, Typ: at.Elem()}
		default:
			x.abort("IndexAddr on %s", t.X.Type())
		}
	case *ssa.Index:
		base := x.val(st, t.X)
		idx := x.val(st, t.Index)
		it := x.toIntIndex(idx, t.Index.Type())
		if b, ok := types.Unalias(t.X.Type()).Underlying().(*types.Basic); ok && b.Info()&types.IsString != 0 {
			s := x.strTerm(st, base)
			x.safety(fr, st, t, "bounds", And(app(SBool, "<=", IntLit(0), it), app(SBool, "<", it, app(SInt, "slen", s))))
			st.regs[t] = Val{K: VTerm, T: x.byteTerm(app(SInt, "sat", s, it)), Typ: t.Type()}
		} else {
			x.abort("Index on %s", t.X.Type())
		}
	case *ssa.Slice:
		x.execSlice(fr, st, t)
	case *ssa.Lookup:
		m := x.val(st, t.X)
		key := x.val(st, t.Index)
		mt, ok := types.Unalias(t.X.Type()).Underlying().(*types.Map)
		if !ok {
			x.abort("Lookup on %s", t.X.Type())
		}
		x.mapAccessCheck(fr, st, t, m, false)
		v := st.mapGet(mt, m.T, key.T)
		v.Typ = mt.Elem()
		st.assumeLoaded(mt.Elem(), st.mapRaw(mt, m.T, key.T))
		if t.CommaOk {
			st.regs[t] = Val{K: VTuple, Parts: []Val{v, {K: VTerm, T: st.mapDom(mt, m.T, key.T), Typ: types.Typ[types.Bool]}}, Typ: t.Type()}
		} else {
			st.regs[t] = v
		}
	case *ssa.MapUpdate:
		m := x.val(st, t.Map)
		key := x.val(st, t.Key)
		v := x.val(st, t.Value)
		mt := types.Unalias(t.Map.Type()).Underlying().(*types.Map)
		x.safety(fr, st, t, "nilmap", Not(Eq(m.T, TNull)))
		x.ledgerUpdate(fr, st, t, mt, m, key, &v)
		st.mapSet(mt, m.T, key.T, v)
	case *ssa.MakeMap:
		mt := types.Unalias(t.Type()).Underlying().(*types.Map)
		st.regs[t] = Val{K: VTerm, T: st.newMap(mt), Typ: t.Type()}
	case *ssa.MakeSlice:
		stp := types.Unalias(t.Type()).Underlying().(*types.Slice)
		ln := x.toIntIndex(x.val(st, t.Len), t.Len.Type())
		cp := x.toIntIndex(x.val(st, t.Cap), t.Cap.Type())
		x.safety(fr, st, t, "makeslice", And(app(SBool, "<=", IntLit(0), ln), app(SBool, "<=", ln, cp)))
		r := st.newObject("slice")
		names, as := st.elemArrs(stp.Elem())
		zero := flatten(enc.zeroVal(stp.Elem()))
		for k := range names {
			arr := st.hget(names[k], as[k])
			es := elemSort(elemSort(as[k]))
			st.hset(names[k], Store(arr, r, Term{fmt.Sprintf("((as const (Array Int %s)) %s)", es, zero[k].S), SArr(SInt, es)}))
		}
		st.regs[t] = Val{K: VSlice, Parts: []Val{TV(r), TV(IntLit(0)), TV(ln), TV(cp)}, Typ: t.Type()}
	case *ssa.MakeInterface:
		v := x.val(st, t.X)
		if isClosedIface(t.Type()) && v.K == VTerm && v.T.Sort == SRef {
			// global typing invariant of closed-world interfaces: no typed nil pointers
			x.safety(fr, st, t, "typed-nil", Not(Eq(v.T, TNull)))
		}
		st.regs[t] = Val{K: VTerm, T: x.makeIface(st, v, t.X.Type()), Typ: t.Type()}
	case *ssa.ChangeInterface:
		v := x.val(st, t.X)
		v.Typ = t.Type()
		st.regs[t] = v
	case *ssa.ChangeType:
		v := x.val(st, t.X)
		_, toTP := t.Type().(*types.TypeParam)
		_, fromTP := t.X.Type().(*types.TypeParam)
		switch {
		case toTP && !fromTP && !types.IsInterface(t.X.Type()) && v.K == VTerm && v.T.Sort != SIface:
			// concrete value viewed at a type parameter: type parameters are modelled as interfaces
			v = Val{K: VTerm, T: x.makeIface(st, v, t.X.Type())}
		case fromTP && !toTP && !types.IsInterface(t.Type()) && v.K == VTerm && v.T.Sort == SIface:
			v = x.ifacePayload(v.T, t.Type())
		}
		v.Typ = t.Type()
		st.regs[t] = v
	case *ssa.Convert:
		st.regs[t] = x.convert(fr, st, t)
	case *ssa.TypeAssert:
		v := x.val(st, t.X)
		ok := x.ifaceIs(v.T, t.AssertedType)
		pv := x.ifacePayload(v.T, t.AssertedType)
		pv = x.unboxPayload(st, pv, t.AssertedType)
		if t.CommaOk {
			zero := enc.zeroVal(t.AssertedType)
			res := x.iteVals(ok, pv, zero)
			res.Typ = t.AssertedType
			st.regs[t] = Val{K: VTuple, Parts: []Val{res, {K: VTerm, T: ok, Typ: types.Typ[types.Bool]}}, Typ: t.Type()}
		} else {
			x.safety(fr, st, t, "assert-type", ok)
			pv.Typ = t.AssertedType
			st.regs[t] = pv
		}
	case *ssa.Extract:
		tup := x.val(st, t.Tuple)
		if tup.K != VTuple || t.Index >= len(tup.Parts) {
			x.abort("Extract from non-tuple %s", tup)
		}
		v := tup.Parts[t.Index]
		v.Typ = t.Type()
		st.regs[t] = v
	case *ssa.MakeClosure:
		c := Val{K: VClosure, Fn: t.Fn.(*ssa.Function), Typ: t.Type()}
		for _, b := range t.Bindings {
			c.Parts = append(c.Parts, x.val(st, b))
		}
		st.regs[t] = c
	case *ssa.Phi:
		// handled on block entry
	case *ssa.Range:
		// modelled only for units whose contract opts in with the flag `ranges` (the obligations of
		// the loop body then need invariants); otherwise the path is aborted and reported as such
		if x.contract == nil || !x.contract.Flags["ranges"] {
			x.abort("range over map/string is not modelled")
		}
		// the iterator is represented by the collection it ranges over
		v := x.val(st, t.X)
		v.Typ = t.X.Type()
		st.regs[t] = v
	case *ssa.Next:
		// Nondeterministic model of one step of a range loop (sound for partial correctness; the order
		// of visits and "every element is visited exactly once" are NOT modelled):
		//   map:    ok is arbitrary; if ok, the key is some key of the current domain and the value is m[key]
		//   string: ok is arbitrary; if ok, the index is some valid index and the rune is the byte there when it is ASCII
		it := x.val(st, t.Iter)
		tup := t.Type().(*types.Tuple)
		ok := x.enc.Fresh("range.ok", SBool)
		parts := []Val{{K: VTerm, T: ok, Typ: types.Typ[types.Bool]}}
		if t.IsString {
			idx := x.enc.Fresh("range.idx", SInt)
			r := x.enc.Fresh("range.rune", SInt)
			ln := app(SInt, "slen", it.T)
			st.assume(Implies(ok, And(app(SBool, "<=", IntLit(0), idx), app(SBool, "<", idx, ln))))
			st.assume(And(app(SBool, "<=", IntLit(0), r), app(SBool, "<=", r, IntLit(0x10FFFF))))
			c := app(SInt, "sat", it.T, idx)
			st.assume(Implies(And(ok, app(SBool, "<", c, IntLit(128))), Eq(r, c)))
			parts = append(parts, Val{K: VTerm, T: idx, Typ: types.Typ[types.Int]}, Val{K: VTerm, T: r, Typ: types.Typ[types.Rune]})
		} else {
			mt, isMap := types.Unalias(it.Typ).Underlying().(*types.Map)
			if !isMap {
				x.abort("range over %s is not modelled", it.Typ)
			}
			x.mapAccessCheck(fr, st, t, it, false)
			kv, inv := x.enc.freshVal(mt.Key(), "range.key")
			kv.Typ = mt.Key()
			st.assumeAll(inv)
			st.assume(Implies(ok, And(Not(Eq(it.T, TNull)), st.mapDom(mt, it.T, kv.T))))
			vv := st.mapGet(mt, it.T, kv.T)
			vv.Typ = mt.Elem()
			st.assumeLoaded(mt.Elem(), st.mapRaw(mt, it.T, kv.T))
			parts = append(parts, kv, vv)
		}
		for i := range parts {
			if i < tup.Len() {
				if b, isB := tup.At(i).Type().(*types.Basic); isB && b.Kind() == types.Invalid {
					parts[i] = Val{K: VTerm, T: IntLit(0), Typ: types.Typ[types.Int]} // component not used by the program
				}
			}
		}
		st.regs[t] = Val{K: VTuple, Parts: parts, Typ: t.Type()}
	case *ssa.Select, *ssa.Send:
		x.abort("channel operation")
	default:
		x.abort("unsupported instruction %T", in)
	}
}

func (x *Exec) iteVals(c Term, a, b Val) Val {
	if a.K == VTerm && b.K == VTerm {
		return Val{K: VTerm, T: Ite(c, a.T, b.T), Typ: a.Typ}
	}
	if a.K == b.K && len(a.Parts) == len(b.Parts) {
		r := Val{K: a.K, Typ: a.Typ}
		for i := range a.Parts {
			r.Parts = append(r.Parts, x.iteVals(c, a.Parts[i], b.Parts[i]))
		}
		return r
	}
	x.abort("cannot merge values")
	return Val{}
}

func (x *Exec) unboxPayload(st *State, pv Val, t types.Type) Val {
	switch types.Unalias(t).Underlying().(type) {
	case *types.Struct, *types.Slice, *types.Array:
		if !types.IsInterface(t) {
			return st.loadCell(t, pv.T)
		}
	}
	return pv
}

func (x *Exec) toIntIndex(v Val, t types.Type) Term {
	if v.T.Sort.IsBV() {
		x.enc.trusted["bv2nat on an index (BV mode)"] = true
		return app(SInt, "bv2nat", v.T)
	}
	return v.T
}

// refOf gives the Ref term of a pointer-like value.
func (x *Exec) refOf(st *State, v Val) Term {
	switch v.K {
	case VTerm:
		if v.T.Sort == SRef {
			return v.T
		}
	case VHeapCell:
		return v.T
	}
	x.abort("pointer value %s has no heap reference", v)
	return Term{}
}

func (x *Exec) strTerm(st *State, v Val) Term {
	if v.K == VTerm && v.T.Sort == SStr {
		return v.T
	}
	x.abort("not a string value: %s", v)
	return Term{}
}

func (x *Exec) execAlloc(fr *Frame, st *State, t *ssa.Alloc) {
	elem := types.Unalias(t.Type()).Underlying().(*types.Pointer).Elem()
	if isStructType(elem) && !isMutexType(elem) {
		r := st.newObject(typeName(elem))
		st.storeStruct(elem, r, x.enc.zeroVal(elem))
		st.fresh[r.S] = true
		st.regs[t] = Val{K: VTerm, T: r, Typ: t.Type()}
		return
	}
	if at, ok := types.Unalias(elem).Underlying().(*types.Array); ok {
		r := st.newObject("array")
		names, as := st.elemArrs(at.Elem())
		zero := flatten(x.enc.zeroVal(at.Elem()))
		for k := range names {
			arr := st.hget(names[k], as[k])
			es := elemSort(elemSort(as[k]))
			st.hset(names[k], Store(arr, r, Term{fmt.Sprintf("((as const (Array Int %s)) %s)", es, zero[k].S), SArr(SInt, es)}))
		}
		st.regs[t] = Val{K: VTerm, T: r, Typ: t.Type()}
		return
	}
	if x.cellEscapes(t) {
		r := st.newObject("cell." + typeName(elem))
		st.storeCell(elem, r, x.enc.zeroVal(elem))
		st.fresh[r.S] = true
		st.regs[t] = Val{K: VHeapCell, T: r, Typ: elem}
		return
	}
	x.cellSeq++
	c := &Cell{Name: t.Comment, Typ: elem, ID: x.cellSeq}
	z := x.enc.zeroVal(elem)
	z.Typ = elem
	st.cells[c] = z
	st.regs[t] = Val{K: VCellPtr, Cell: c, Typ: elem}
}

// cellEscapes: an Alloc stays a local cell when it is only loaded, stored to, or captured by a closure.
func (x *Exec) cellEscapes(a *ssa.Alloc) bool {
	for _, r := range *a.Referrers() {
		switch rr := r.(type) {
		case *ssa.UnOp:
			if rr.Op != token.MUL {
				return true
			}
		case *ssa.Store:
			if rr.Val == ssa.Value(a) {
				return true
			}
		case *ssa.MakeClosure, *ssa.DebugRef:
		default:
			return true
		}
	}
	return false
}

func (x *Exec) load(fr *Frame, st *State, in ssa.Instruction, p Val, ptrT types.Type) Val {
	switch p.K {
	case VCellPtr:
		v, ok := st.cells[p.Cell]
		if !ok {
			x.abort("load from unknown cell %s", p.Cell.Name)
		}
		return v
	case VFieldPtr:
		x.raceCheck(fr, st, in, p, false)
		v := st.loadField(p.ST, p.FV, p.T)
		x.noteGuard(st, p, v)
		return v
	case VElemPtr:
		return st.loadElem(p.Typ, p.Parts[0].T, app(SInt, "+", p.Parts[1].T, p.Idx))
	case VGlobalPtr:
		g := p.Glob
		return x.globalVal(st, g.Pkg.Pkg.Name(), g.Name(), types.Unalias(g.Type()).Underlying().(*types.Pointer).Elem())
	case VHeapCell:
		return st.loadCell(p.Typ, p.T)
	case VTerm:
		if p.T.Sort == SRef {
			elem := types.Unalias(ptrT).Underlying().(*types.Pointer).Elem()
			x.safety(fr, st, in, "nil", Not(Eq(p.T, TNull)))
			return st.loadCell(elem, p.T)
		}
	}
	x.abort("load through %s", p)
	return Val{}
}

func (x *Exec) store(fr *Frame, st *State, in ssa.Instruction, p, v Val, ptrT types.Type) {
	switch p.K {
	case VCellPtr:
		v.Typ = p.Cell.Typ
		st.cells[p.Cell] = v
	case VFieldPtr:
		x.raceCheck(fr, st, in, p, true)
		st.storeField(p.ST, p.FV, p.T, v)
	case VElemPtr:
		st.storeElem(p.Typ, p.Parts[0].T, app(SInt, "+", p.Parts[1].T, p.Idx), v)
	case VHeapCell:
		st.storeCell(p.Typ, p.T, v)
	case VTerm:
		if p.T.Sort == SRef {
			elem := types.Unalias(ptrT).Underlying().(*types.Pointer).Elem()
			x.safety(fr, st, in, "nil", Not(Eq(p.T, TNull)))
			st.storeCell(elem, p.T, v)
			return
		}
		x.abort("store through %s", p)
	case VGlobalPtr:
		x.abort("store to package-level variable %s", p.Glob.Name())
	default:
		x.abort("store through %s", p)
	}
}

func (x *Exec) execSlice(fr *Frame, st *State, t *ssa.Slice) {
	base := x.val(st, t.X)
	var lo, hi, mx *Term
	get := func(v ssa.Value) *Term {
		if v == nil {
			return nil
		}
		tt := x.toIntIndex(x.val(st, v), v.Type())
		return &tt
	}
	lo, hi, mx = get(t.Low), get(t.High), get(t.Max)
	zero := IntLit(0)
	switch u := types.Unalias(t.X.Type()).Underlying().(type) {
	case *types.Basic: // string
		s := x.strTerm(st, base)
		ln := app(SInt, "slen", s)
		l, h := zero, ln
		if lo != nil {
			l = *lo
		}
		if hi != nil {
			h = *hi
		}
		x.safety(fr, st, t, "bounds", And(app(SBool, "<=", zero, l), app(SBool, "<=", l, h), app(SBool, "<=", h, ln)))
		if lo == nil && hi == nil {
			st.regs[t] = base
			return
		}
		st.regs[t] = Val{K: VTerm, T: x.strSub(s, l, h), Typ: t.Type()}
	case *types.Slice:
		off, ln, cp := base.Parts[1].T, base.Parts[2].T, base.Parts[3].T
		l, h, m := zero, ln, cp
		if lo != nil {
			l = *lo
		}
		if hi != nil {
			h = *hi
		}
		if mx != nil {
			m = *mx
		}
		x.safety(fr, st, t, "bounds", And(app(SBool, "<=", zero, l), app(SBool, "<=", l, h), app(SBool, "<=", h, m), app(SBool, "<=", m, cp)))
		st.regs[t] = Val{K: VSlice, Parts: []Val{base.Parts[0], TV(x.enc.IntBin(token.ADD, off, l, types.Typ[types.Int], false)),
			TV(x.enc.IntBin(token.SUB, h, l, types.Typ[types.Int], false)), TV(x.enc.IntBin(token.SUB, m, l, types.Typ[types.Int], false))}, Typ: t.Type()}
	case *types.Pointer:
		at := types.Unalias(u.Elem()).Underlying().(*types.Array)
		n := IntLit(at.Len())
		ref := x.refOf(st, base)
		x.safety(fr, st, t, "nil", Not(Eq(ref, TNull)))
		l, h := zero, n
		if lo != nil {
			l = *lo
		}
		if hi != nil {
			h = *hi
		}
		x.safety(fr, st, t, "bounds", And(app(SBool, "<=", zero, l), app(SBool, "<=", l, h), app(SBool, "<=", h, n)))
		st.regs[t] = Val{K: VSlice, Parts: []Val{TV(ref), TV(l), TV(x.enc.IntBin(token.SUB, h, l, types.Typ[types.Int], false)), TV(x.enc.IntBin(token.SUB, n, l, types.Typ[types.Int], false))}, Typ: t.Type()}
	default:
		x.abort("Slice of %s", t.X.Type())
	}
}

func (x *Exec) binop(fr *Frame, st *State, in ssa.Instruction, op token.Token, a, b Val, ta, tb, tr types.Type) Val {
	enc := x.enc
	switch op {
	case token.EQL, token.NEQ:
		eq := x.eqVals(st, a, b, ta)
		if op == token.NEQ {
			eq = Not(eq)
		}
		return Val{K: VTerm, T: eq, Typ: tr}
	}
	if bt, ok := types.Unalias(ta).Underlying().(*types.Basic); ok && bt.Info()&types.IsString != 0 {
		sa, sb := x.strTerm(st, a), x.strTerm(st, b)
		switch op {
		case token.ADD:
			return Val{K: VTerm, T: x.strConcat(sa, sb), Typ: tr}
		case token.LSS:
			return Val{K: VTerm, T: x.strLess(sa, sb), Typ: tr}
		case token.GTR:
			return Val{K: VTerm, T: x.strLess(sb, sa), Typ: tr}
		case token.LEQ:
			return Val{K: VTerm, T: Not(x.strLess(sb, sa)), Typ: tr}
		case token.GEQ:
			return Val{K: VTerm, T: Not(x.strLess(sa, sb)), Typ: tr}
		}
	}
	if bt, ok := types.Unalias(ta).Underlying().(*types.Basic); ok && bt.Info()&types.IsBoolean != 0 {
		switch op {
		case token.AND, token.LAND:
			return Val{K: VTerm, T: And(a.T, b.T), Typ: tr}
		case token.OR, token.LOR:
			return Val{K: VTerm, T: Or(a.T, b.T), Typ: tr}
		}
	}
	switch op {
	case token.LSS, token.LEQ, token.GTR, token.GEQ:
		return Val{K: VTerm, T: enc.IntCmp(op, a.T, b.T, ta), Typ: tr}
	case token.QUO, token.REM:
		zero := enc.IntConst(bigZero, tb)
		x.safety(fr, st, in, "divzero", Not(Eq(b.T, zero)))
	}
	if op == token.SHL || op == token.SHR {
		if !enc.BV {
			// shift count semantics: Go allows any non-negative count
			if ii, ok := basicIntInfo(tb); ok && ii.signed {
				x.safety(fr, st, in, "shift", app(SBool, ">=", b.T, IntLit(0)))
			}
		}
	}
	return Val{K: VTerm, T: enc.IntBin(op, a.T, b.T, tr, true), Typ: tr}
}

func (x *Exec) strLess(a, b Term) Term {
	r := x.enc.UF("strlt", SBool, a, b)
	x.enc.axiom("strlt.irrefl", "(forall ((a Str)) (! (not (v_strlt a a)) :pattern ((v_strlt a a))))")
	x.enc.axiom("strlt.total", "(forall ((a Str) (b Str)) (! (or (v_strlt a b) (v_strlt b a) (= a b)) :pattern ((v_strlt a b))))")
	x.enc.axiom("strlt.trans", "(forall ((a Str) (b Str) (c Str)) (! (=> (and (v_strlt a b) (v_strlt b c)) (v_strlt a c)) :pattern ((v_strlt a b) (v_strlt b c))))")
	return r
}

func (x *Exec) eqVals(st *State, a, b Val, t types.Type) Term {
	if a.K == VTerm && b.K == VTerm {
		if a.T.Sort != b.T.Sort {
			x.abort("comparison of different sorts %s / %s", a.T.Sort, b.T.Sort)
		}
		return Eq(a.T, b.T)
	}
	if a.K == VSlice && b.K == VSlice {
		// only comparison with nil is legal Go
		if b.Parts[0].T.S == "null" {
			return Eq(a.Parts[0].T, TNull)
		}
		if a.Parts[0].T.S == "null" {
			return Eq(b.Parts[0].T, TNull)
		}
	}
	if (a.K == VStruct || a.K == VTuple) && a.K == b.K && len(a.Parts) == len(b.Parts) {
		var cs []Term
		for i := range a.Parts {
			cs = append(cs, x.eqVals(st, a.Parts[i], b.Parts[i], nil))
		}
		return And(cs...)
	}
	if a.K == VFunc || b.K == VFunc || a.K == VClosure || b.K == VClosure {
		// func values can only be compared with nil
		if a.K == VTerm {
			return Eq(a.T, st.storable(b).T)
		}
		if b.K == VTerm {
			return Eq(st.storable(a).T, b.T)
		}
	}
	if a.K == VHeapCell && b.K == VTerm {
		return Eq(a.T, b.T)
	}
	if b.K == VHeapCell && a.K == VTerm {
		return Eq(a.T, b.T)
	}
	x.abort("cannot compare %s and %s", a, b)
	return Term{}
}

func (x *Exec) convert(fr *Frame, st *State, t *ssa.Convert) Val {
	v := x.val(st, t.X)
	from, to := t.X.Type(), t.Type()
	_, fi := basicIntInfo(from)
	_, ti := basicIntInfo(to)
	if fi && ti {
		return Val{K: VTerm, T: x.enc.ConvertInt(v.T, from, to), Typ: to}
	}
	fb, fIsB := types.Unalias(from).Underlying().(*types.Basic)
	tb, tIsB := types.Unalias(to).Underlying().(*types.Basic)
	if fIsB && tIsB && fb.Info()&types.IsString != 0 && tb.Info()&types.IsString != 0 {
		v.Typ = to
		return v
	}
	if tIsB && tb.Info()&types.IsString != 0 {
		if sl, ok := types.Unalias(from).Underlying().(*types.Slice); ok {
			// string(b): fresh string with the bytes of b
			s := x.enc.Fresh("str.of.bytes", SStr)
			st.assume(Eq(app(SInt, "slen", s), v.Parts[2].T))
			names, as := st.elemArrs(sl.Elem())
			arr := Select(st.hget(names[0], as[0]), v.Parts[0].T)
			st.assume(Term{fmt.Sprintf("(forall ((i!c Int)) (! (=> (and (<= 0 i!c) (< i!c %s)) (= (sat %s i!c) (select %s (+ %s i!c)))) :pattern ((sat %s i!c))))",
				v.Parts[2].T.S, s.S, arr.S, v.Parts[1].T.S, s.S), SBool})
			return Val{K: VTerm, T: s, Typ: to}
		}
		if fi {
			r := x.enc.UF("str.of.rune", SStr, v.T)
			// a code point below 128 is encoded as exactly that one byte
			if !x.enc.BV {
				st.assume(Implies(And(app(SBool, "<=", IntLit(0), v.T), app(SBool, "<", v.T, IntLit(128))), And(Eq(app(SInt, "slen", r), IntLit(1)), Eq(app(SInt, "sat", r, IntLit(0)), v.T))))
			}
			return Val{K: VTerm, T: r, Typ: to}
		}
	}
	if sl, ok := types.Unalias(to).Underlying().(*types.Slice); ok && fIsB && fb.Info()&types.IsString != 0 {
		// []byte(s)
		r := st.newObject("bytes.of.str")
		names, as := st.elemArrs(sl.Elem())
		arr := st.hget(names[0], as[0])
		na := x.enc.Fresh("bytes", SArr(SInt, SInt))
		st.assume(Term{fmt.Sprintf("(forall ((i!c Int)) (! (=> (and (<= 0 i!c) (< i!c (slen %s))) (= (select %s i!c) (sat %s i!c))) :pattern ((select %s i!c))))", v.T.S, na.S, v.T.S, na.S), SBool})
		st.hset(names[0], Store(arr, r, na))
		ln := app(SInt, "slen", v.T)
		return Val{K: VSlice, Parts: []Val{TV(r), TV(IntLit(0)), TV(ln), TV(ln)}, Typ: to}
	}
	if _, ok := types.Unalias(to).Underlying().(*types.Pointer); ok {
		v.Typ = to
		return v
	}
	if tIsB && tb.Kind() == types.UnsafePointer {
		v.Typ = to
		return v
	}
	x.abort("conversion %s -> %s", from, to)
	return Val{}
}
