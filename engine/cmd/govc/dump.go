package main

import (
	"fmt"
	"os"

	"golang.org/x/tools/go/ssa"
)

// cmdDump prints the SSA of a function and of the static callees one level down (debugging aid).
func cmdDump(args []string) {
	tags := "verif"
	if t := os.Getenv("GOVC_TAGS"); t != "" {
		tags = t
	}
	prog, _ := loadAll("/repo", "/verif/prelude", tags)
	f, ok := prog.ByKey[args[0]]
	if !ok {
		fmt.Println("no such function")
		return
	}
	f.WriteTo(os.Stdout)
	x := &Exec{prog: prog}
	fr := &Frame{fn: f, loops: map[*ssa.BasicBlock]*loopInfo{}}
	x.findLoops(fr)
	for h, li := range fr.loops {
		fmt.Printf("# loop %d: header block %d at %s\n", li.ordinal, h.Index, prog.Fset.Position(blockPos(h)))
	}
	for _, b := range f.Blocks {
		for _, in := range b.Instrs {
			if c, ok := in.(ssa.CallInstruction); ok {
				if cf := c.Common().StaticCallee(); cf != nil && len(args) > 1 {
					cf.WriteTo(os.Stdout)
				}
			}
		}
	}
}
