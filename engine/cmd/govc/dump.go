package main

import (
	"fmt"
	"os"

	"golang.org/x/tools/go/ssa"
)

// cmdDump prints the SSA of a function and of the static callees one level down (debugging aid).
func cmdDump(args []string) {
	prog, _ := loadAll("/repo", "/verif/prelude", "verif")
	f, ok := prog.ByKey[args[0]]
	if !ok {
		fmt.Println("no such function")
		return
	}
	f.WriteTo(os.Stdout)
	for _, b := range f.Blocks {
		for _, in := range b.Instrs {
			if c, ok := in.(ssa.CallInstruction); ok {
				if cf := c.Common().StaticCallee(); cf != nil && len(args) > 1 {
					cf.WriteTo(os.Stdout)
				}
			}
		}
	}
}
