package main

// Assumed contracts of standard-library functions (the "prelude" for callees whose bodies are
// never entered).  Every use is recorded in the trusted base of the evidence.

import (
	"fmt"
	"go/token"
	"strings"
	"go/types"
	"math/big"

	"golang.org/x/tools/go/ssa"
)

type stubFn func(x *Exec, fr *Frame, st *State, in ssa.Instruction, args []Val) []Val

var stdStubs map[string]stubFn

// stubWrites: stubs that modify heap state (used by the loop write-set analysis).
var stubWrites = map[string]bool{"sort.Strings": true, "sort.Slice": true, "(*sync.Pool).Put": false}

// stubArrays: stubs that modify a known set of heap arrays only.
var stubArrays = map[string][]string{}

var builderArrays = []string{"F.strings.Builder.buf", "F.strings.Builder.buf.1", "F.strings.Builder.buf.2", "F.strings.Builder.buf.3", "alloc"}

func init() {
	intT := types.Typ[types.Int]
	boolT := types.Typ[types.Bool]
	strT := types.Typ[types.String]
	stdStubs = map[string]stubFn{
		"errors.Is": func(x *Exec, fr *Frame, st *State, in ssa.Instruction, a []Val) []Val {
			return []Val{{K: VTerm, T: x.errorsIs(a[0].T, a[1].T), Typ: boolT}}
		},
		"errors.New": func(x *Exec, fr *Frame, st *State, in ssa.Instruction, a []Val) []Val {
			r := st.newObject("errors.errorString")
			return []Val{{K: VTerm, T: Term{fmt.Sprintf("(iref 999 %s)", r.S), SIface}, Typ: types.Universe.Lookup("error").Type()}}
		},
		"time.Now": func(x *Exec, fr *Frame, st *State, in ssa.Instruction, a []Val) []Val {
			sig := in.(ssa.CallInstruction).Common().Signature()
			v, inv := x.enc.freshVal(sig.Results().At(0).Type(), "time.Now")
			st.assumeAll(inv)
			return []Val{v}
		},
		"(time.Time).UnixNano": func(x *Exec, fr *Frame, st *State, in ssa.Instruction, a []Val) []Val {
			v, inv := x.enc.freshVal(types.Typ[types.Int64], "unixnano")
			st.assumeAll(inv)
			return []Val{v}
		},
		"(*sync.Pool).Get": func(x *Exec, fr *Frame, st *State, in ssa.Instruction, a []Val) []Val {
			v, _ := x.enc.freshVal(types.NewInterfaceType(nil, nil), "pool.get")
			return []Val{v}
		},
		"(*sync.Pool).Put": func(x *Exec, fr *Frame, st *State, in ssa.Instruction, a []Val) []Val {
			return nil
		},
		"io.MultiWriter": func(x *Exec, fr *Frame, st *State, in ssa.Instruction, a []Val) []Val {
			// result: a non-nil writer (writes go to all arguments: used only through io.CopyBuffer's assumed contract)
			v, _ := x.enc.freshVal(in.(ssa.CallInstruction).Common().Signature().Results().At(0).Type(), "multiwriter")
			st.assume(Not(Eq(v.T, TINil)))
			st.publish(a[0])
			return []Val{v}
		},
		"strings.IndexByte": func(x *Exec, fr *Frame, st *State, in ssa.Instruction, a []Val) []Val {
			s := x.strTerm(st, a[0])
			c := a[1].T
			r := x.enc.Fresh("indexbyte", SInt)
			ln := app(SInt, "slen", s)
			st.assume(And(app(SBool, "<=", IntLit(-1), r), app(SBool, "<", r, ln)))
			st.assume(Implies(app(SBool, ">=", r, IntLit(0)), Eq(app(SInt, "sat", s, r), c)))
			if base, off, vlen, ok := strView(s); ok {
				// the same facts in absolute indices of the string the argument is a slice of
				st.assume(Implies(app(SBool, ">=", r, IntLit(0)), Eq(app(SInt, "sat", base, app(SInt, "+", off, r)), c)))
				hi := Ite(app(SBool, ">=", r, IntLit(0)), app(SInt, "+", off, r), app(SInt, "+", off, vlen))
				st.assume(Term{fmt.Sprintf("(forall ((k!s Int)) (! (=> (and (<= %s k!s) (< k!s %s)) (not (= (sat %s k!s) %s))) :pattern ((sat %s k!s))))", off.S, hi.S, base.S, c.S, base.S), SBool})
			}
			st.assume(Term{fmt.Sprintf("(forall ((j!s Int)) (! (=> (and (<= 0 j!s) (< j!s (ite (>= %s 0) %s %s))) (not (= (sat %s j!s) %s))) :pattern ((sat %s j!s))))", r.S, r.S, ln.S, s.S, c.S, s.S), SBool})
			return []Val{{K: VTerm, T: r, Typ: intT}}
		},
		"strings.LastIndexByte": func(x *Exec, fr *Frame, st *State, in ssa.Instruction, a []Val) []Val {
			s := x.strTerm(st, a[0])
			c := a[1].T
			r := x.enc.Fresh("lastindexbyte", SInt)
			ln := app(SInt, "slen", s)
			st.assume(And(app(SBool, "<=", IntLit(-1), r), app(SBool, "<", r, ln)))
			st.assume(Implies(app(SBool, ">=", r, IntLit(0)), Eq(app(SInt, "sat", s, r), c)))
			st.assume(Term{fmt.Sprintf("(forall ((j!s Int)) (! (=> (and (< %s j!s) (< j!s %s)) (not (= (sat %s j!s) %s))) :pattern ((sat %s j!s))))", r.S, ln.S, s.S, c.S, s.S), SBool})
			return []Val{{K: VTerm, T: r, Typ: intT}}
		},
		"strings.HasPrefix": func(x *Exec, fr *Frame, st *State, in ssa.Instruction, a []Val) []Val {
			s, p := x.strTerm(st, a[0]), x.strTerm(st, a[1])
			return []Val{{K: VTerm, T: x.hasPrefix(s, p), Typ: boolT}}
		},
		"strings.HasSuffix": func(x *Exec, fr *Frame, st *State, in ssa.Instruction, a []Val) []Val {
			s, p := x.strTerm(st, a[0]), x.strTerm(st, a[1])
			return []Val{{K: VTerm, T: x.enc.UF("hassuffix", SBool, s, p), Typ: boolT}}
		},
		"strings.Contains": func(x *Exec, fr *Frame, st *State, in ssa.Instruction, a []Val) []Val {
			return []Val{{K: VTerm, T: x.enc.UF("strcontains", SBool, a[0].T, a[1].T), Typ: boolT}}
		},
		"strings.ContainsAny": func(x *Exec, fr *Frame, st *State, in ssa.Instruction, a []Val) []Val {
			return []Val{{K: VTerm, T: x.enc.UF("strcontainsany", SBool, a[0].T, a[1].T), Typ: boolT}}
		},
		"strings.Count": func(x *Exec, fr *Frame, st *State, in ssa.Instruction, a []Val) []Val {
			r := x.enc.UF("strcount", SInt, a[0].T, a[1].T)
			st.assume(app(SBool, ">=", r, IntLit(0)))
			st.assume(app(SBool, "<=", r, app(SInt, "+", app(SInt, "slen", a[0].T), IntLit(1))))
			return []Val{{K: VTerm, T: r, Typ: intT}}
		},
		"strings.EqualFold": func(x *Exec, fr *Frame, st *State, in ssa.Instruction, a []Val) []Val {
			return []Val{{K: VTerm, T: x.enc.UF("strequalfold", SBool, a[0].T, a[1].T), Typ: boolT}}
		},
		"strings.ReplaceAll": func(x *Exec, fr *Frame, st *State, in ssa.Instruction, a []Val) []Val {
			r := x.enc.UF("strreplaceall", SStr, a[0].T, a[1].T, a[2].T)
			// replacing one byte by one byte keeps the length
			one := And(Eq(app(SInt, "slen", a[1].T), IntLit(1)), Eq(app(SInt, "slen", a[2].T), IntLit(1)))
			st.assume(Implies(one, Eq(app(SInt, "slen", r), app(SInt, "slen", a[0].T))))
			// ... and is a byte-wise substitution (documented behaviour of strings.ReplaceAll for non-overlapping one-byte matches)
			st.assume(Implies(one, Term{fmt.Sprintf("(forall ((i!r Int)) (! (=> (and (<= 0 i!r) (< i!r (slen %s))) (= (sat %s i!r) (ite (= (sat %s i!r) (sat %s 0)) (sat %s 0) (sat %s i!r)))) :pattern ((sat %s i!r))))",
				a[0].T.S, r.S, a[0].T.S, a[1].T.S, a[2].T.S, a[0].T.S, r.S), SBool}))
			x.enc.trusted["assumed contract of strings.ReplaceAll (one byte for one byte)"] = true
			return []Val{{K: VTerm, T: r, Typ: strT}}
		},
		"strings.ToUpper": func(x *Exec, fr *Frame, st *State, in ssa.Instruction, a []Val) []Val {
			return []Val{{K: VTerm, T: x.enc.UF("strtoupper", SStr, a[0].T), Typ: strT}}
		},
		"strconv.Itoa": func(x *Exec, fr *Frame, st *State, in ssa.Instruction, a []Val) []Val {
			return []Val{{K: VTerm, T: x.enc.UF("itoa", SStr, a[0].T), Typ: strT}}
		},
		"(io/fs.FileMode).IsDir": func(x *Exec, fr *Frame, st *State, in ssa.Instruction, a []Val) []Val {
			return []Val{{K: VTerm, T: x.modeBit(a[0].T, 31), Typ: boolT}}
		},
		"(io/fs.FileMode).IsRegular": func(x *Exec, fr *Frame, st *State, in ssa.Instruction, a []Val) []Val {
			// ModeType = ModeDir | ModeSymlink | ModeNamedPipe | ModeSocket | ModeDevice | ModeCharDevice | ModeIrregular
			mask := new(big.Int).SetUint64(0x8F280000)
			var t Term
			if x.enc.BV {
				t = Eq(app(SBV(32), "bvand", a[0].T, BVLit(mask, 32)), BVLit(big.NewInt(0), 32))
			} else {
				t = Eq(x.enc.bandConst(a[0].T, mask), IntLit(0))
			}
			return []Val{{K: VTerm, T: t, Typ: boolT}}
		},
		"(io/fs.FileMode).Perm": func(x *Exec, fr *Frame, st *State, in ssa.Instruction, a []Val) []Val {
			var t Term
			if x.enc.BV {
				t = app(SBV(32), "bvand", a[0].T, BVLit(big.NewInt(0o777), 32))
			} else {
				t = x.enc.bandConst(a[0].T, big.NewInt(0o777))
			}
			return []Val{{K: VTerm, T: t, Typ: a[0].Typ}}
		},
		"(io/fs.FileMode).Type": func(x *Exec, fr *Frame, st *State, in ssa.Instruction, a []Val) []Val {
			mask := new(big.Int).SetUint64(0x8F280000)
			var t Term
			if x.enc.BV {
				t = app(SBV(32), "bvand", a[0].T, BVLit(mask, 32))
			} else {
				t = x.enc.bandConst(a[0].T, mask)
			}
			return []Val{{K: VTerm, T: t, Typ: a[0].Typ}}
		},
		"bytes.Repeat": func(x *Exec, fr *Frame, st *State, in ssa.Instruction, a []Val) []Val {
			// result: count copies of b; modelled exactly when len(b) is the literal 1 (the only use in avfs)
			b, count := a[0], a[1].T
			x.safety(fr, st, in, "repeat-count", app(SBool, ">=", count, IntLit(0)))
			r := st.newObject("bytes.repeat")
			sl := types.NewSlice(types.Typ[types.Uint8])
			names, as := st.elemArrs(types.Typ[types.Uint8])
			if n, ok := parseIntLit(b.Parts[2].T); ok && n.Int64() == 1 {
				arr := st.hget(names[0], as[0])
				e0 := Select(Select(arr, b.Parts[0].T), b.Parts[1].T)
				st.hset(names[0], Store(arr, r, Term{fmt.Sprintf("((as const (Array Int Int)) %s)", e0.S), SArr(SInt, SInt)}))
				return []Val{{K: VSlice, Parts: []Val{TV(r), TV(IntLit(0)), TV(count), TV(count)}, Typ: sl}}
			}
			ln := x.enc.Fresh("repeat.len", SInt)
			st.assume(app(SBool, ">=", ln, IntLit(0)))
			return []Val{{K: VSlice, Parts: []Val{TV(r), TV(IntLit(0)), TV(ln), TV(ln)}, Typ: sl}}
		},
		"slices.Insert": func(x *Exec, fr *Frame, st *State, in ssa.Instruction, a []Val) []Val {
			// result: a slice of length len(s)+len(v) (contents not modelled); panics if i is out of range
			sv, iv, vv := a[0], a[1].T, a[2]
			x.safety(fr, st, in, "insert-index", And(app(SBool, "<=", IntLit(0), iv), app(SBool, "<=", iv, sv.Parts[2].T)))
			r := st.newObject("slices.insert")
			ln := app(SInt, "+", sv.Parts[2].T, vv.Parts[2].T)
			cp := x.enc.Fresh("insert.cap", SInt)
			st.assume(And(app(SBool, ">=", cp, ln), app(SBool, "<=", cp, IntLit(1<<48))))
			return []Val{{K: VSlice, Parts: []Val{TV(r), TV(IntLit(0)), TV(ln), TV(cp)}, Typ: sv.Typ}}
		},
		"reflect.ValueOf": func(x *Exec, fr *Frame, st *State, in ssa.Instruction, a []Val) []Val {
			// the reflect.Value is represented by the interface value it was made from
			return []Val{{K: VStruct, Parts: []Val{a[0]}, Typ: in.(ssa.CallInstruction).Common().Signature().Results().At(0).Type()}}
		},
		"(reflect.Value).IsNil": func(x *Exec, fr *Frame, st *State, in ssa.Instruction, a []Val) []Val {
			if a[0].K != VStruct || len(a[0].Parts) != 1 {
				x.abort("reflect.Value not produced by reflect.ValueOf")
			}
			i := a[0].Parts[0].T
			// IsNil panics on the zero Value (ValueOf(nil interface)) and on non-nillable kinds
			x.safety(fr, st, in, "reflect-isnil", app(SBool, "(_ is iref)", i))
			return []Val{{K: VTerm, T: Eq(app(SRef, "pref", i), TNull), Typ: boolT}}
		},
		"sync/atomic.AddUint64": func(x *Exec, fr *Frame, st *State, in ssa.Instruction, a []Val) []Val {
			t := types.Typ[types.Uint64]
			old := x.load(fr, st, in, a[0], types.NewPointer(t))
			nv := Val{K: VTerm, T: x.enc.IntBin(token.ADD, old.T, a[1].T, t, true), Typ: t}
			x.store(fr, st, in, a[0], nv, types.NewPointer(t))
			return []Val{nv}
		},
		"sync/atomic.LoadUint32": func(x *Exec, fr *Frame, st *State, in ssa.Instruction, a []Val) []Val {
			t := types.Typ[types.Uint32]
			return []Val{x.load(fr, st, in, a[0], types.NewPointer(t))}
		},
		"sync/atomic.StoreUint32": func(x *Exec, fr *Frame, st *State, in ssa.Instruction, a []Val) []Val {
			t := types.Typ[types.Uint32]
			x.store(fr, st, in, a[0], a[1], types.NewPointer(t))
			return nil
		},
	}
}

// strView recognises a string term that is a slice of another string: (v_ssub base lo hi).
func strView(s Term) (base, off, ln Term, ok bool) {
	if !strings.HasPrefix(s.S, "(v_ssub ") {
		return
	}
	parts := sexpr(s.S)
	if len(parts) != 1 {
		return
	}
	l, isList := parts[0].([]any)
	if !isList || len(l) != 4 {
		return
	}
	base = Term{sexprString(l[1]), SStr}
	off = Term{sexprString(l[2]), SInt}
	hi := Term{sexprString(l[3]), SInt}
	ln = app(SInt, "-", hi, off)
	// nested views: offsets add up
	if b2, o2, _, ok2 := strView(base); ok2 {
		return b2, app(SInt, "+", o2, off), ln, true
	}
	return base, off, ln, true
}

// pureExtern: standard-library functions that are pure functions of their arguments (no heap
// effect); the result is an uninterpreted function of the arguments (a fresh value when an
// argument is a slice, whose contents the function reads).
var pureExterns = []string{
	"path/filepath.Base", "path/filepath.Clean", "path/filepath.Dir", "path/filepath.FromSlash", "path/filepath.IsAbs",
	"path/filepath.Join", "path/filepath.Match", "path/filepath.Rel", "path/filepath.Split", "path/filepath.ToSlash",
	"path/filepath.VolumeName", "os.IsPathSeparator", "strings.Join", "strings.TrimSuffix", "strings.TrimPrefix",
	"strings.ToLower", "strings.Index", "strings.LastIndex", "strings.Repeat", "strings.TrimRight", "strings.TrimLeft",
	"unicode/utf8.DecodeRuneInString", "unicode/utf8.RuneLen", "unicode.IsLetter", "unicode.ToUpper", "unicode.ToLower",
	"os.Getenv", "os.TempDir", "runtime.GOROOT", "time.Unix", "(time.Time).Unix", "math/rand.Intn", "math/rand.Int", "math/rand.Uint32", "strconv.FormatUint", "strconv.FormatInt",
}

func init() {
	// avfs.volumeNameLen is filepath.volumeNameLen (go:linkname, no body): a length between 0 and len(path)
	stdStubs["github.com/avfs/avfs.volumeNameLen"] = func(x *Exec, fr *Frame, st *State, in ssa.Instruction, a []Val) []Val {
		r := x.enc.UF("ext.filepath.volumeNameLen", SInt, a[0].T)
		st.assume(And(app(SBool, "<=", IntLit(0), r), app(SBool, "<=", r, app(SInt, "slen", a[0].T))))
		return []Val{{K: VTerm, T: r, Typ: types.Typ[types.Int]}}
	}
	defer func() {
		// strings.Builder: only the length of the accumulated text is modelled (field buf: a fresh
		// backing array after every write, contents unconstrained); a nil receiver panics.
		builderBuf := func(x *Exec, fr *Frame, st *State, in ssa.Instruction, recv Val) (get func() Term, set func(ln Term)) {
			x.safety(fr, st, in, "nil", Not(Eq(recv.T, TNull)))
			lnArr := func() Term { return st.hget("F.strings.Builder.buf.2", SArr(SRef, SInt)) }
			get = func() Term { return Select(lnArr(), recv.T) }
			set = func(ln Term) {
				r := st.newObject("builder.buf")
				cp := x.enc.Fresh("builder.cap", SInt)
				st.assume(And(app(SBool, "<=", ln, cp), app(SBool, "<=", cp, IntLit(1<<48))))
				for k, v := range []Term{r, IntLit(0), ln, cp} {
					nm := compName("F.strings.Builder.buf", k)
					srt := SInt
					if k == 0 {
						srt = SRef
					}
					st.hset(nm, Store(st.hget(nm, SArr(SRef, srt)), recv.T, v))
				}
			}
			return
		}
		intT, strT, errT := types.Typ[types.Int], types.Typ[types.String], types.Universe.Lookup("error").Type()
		grow := func(name string, add func(x *Exec, a []Val) Term, results func(n Term) []Val) {
			stubArrays[name] = builderArrays
			stdStubs[name] = func(x *Exec, fr *Frame, st *State, in ssa.Instruction, a []Val) []Val {
				get, set := builderBuf(x, fr, st, in, a[0])
				n := add(x, a)
				old := get()
				st.assume(And(app(SBool, "<=", IntLit(0), old), app(SBool, "<=", old, IntLit(1<<48))))
				set(app(SInt, "+", old, n))
				x.enc.trusted["assumed contract of strings.Builder (length only)"] = true
				return results(n)
			}
		}
		grow("(*strings.Builder).WriteString", func(x *Exec, a []Val) Term { return app(SInt, "slen", a[1].T) },
			func(n Term) []Val { return []Val{{K: VTerm, T: n, Typ: intT}, {K: VTerm, T: TINil, Typ: errT}} })
		grow("(*strings.Builder).WriteByte", func(x *Exec, a []Val) Term { return IntLit(1) },
			func(n Term) []Val { return []Val{{K: VTerm, T: TINil, Typ: errT}} })
		grow("(*strings.Builder).Write", func(x *Exec, a []Val) Term { return a[1].Parts[2].T },
			func(n Term) []Val { return []Val{{K: VTerm, T: n, Typ: intT}, {K: VTerm, T: TINil, Typ: errT}} })
		stdStubs["(*strings.Builder).Len"] = func(x *Exec, fr *Frame, st *State, in ssa.Instruction, a []Val) []Val {
			get, _ := builderBuf(x, fr, st, in, a[0])
			ln := get()
			st.assume(And(app(SBool, "<=", IntLit(0), ln), app(SBool, "<=", ln, IntLit(1<<48))))
			return []Val{{K: VTerm, T: ln, Typ: intT}}
		}
		stdStubs["(*strings.Builder).String"] = func(x *Exec, fr *Frame, st *State, in ssa.Instruction, a []Val) []Val {
			get, _ := builderBuf(x, fr, st, in, a[0])
			ln := get()
			r := x.enc.Fresh("builder.string", SStr)
			st.assume(And(app(SBool, "<=", IntLit(0), ln), app(SBool, "<=", ln, IntLit(1<<48)), Eq(app(SInt, "slen", r), ln)))
			x.enc.trusted["assumed contract of strings.Builder (length only)"] = true
			return []Val{{K: VTerm, T: r, Typ: strT}}
		}
		stubArrays["(*strings.Builder).Grow"] = builderArrays
		stdStubs["(*strings.Builder).Grow"] = func(x *Exec, fr *Frame, st *State, in ssa.Instruction, a []Val) []Val {
			get, set := builderBuf(x, fr, st, in, a[0])
			x.safety(fr, st, in, "grow-negative", app(SBool, ">=", a[1].T, IntLit(0)))
			set(get())
			return nil
		}
		// utf8.DecodeRuneInString(s) = (r, n): n == 0 iff s is empty, otherwise 1 <= n <= min(4, len(s));
		// n == 1 and r == s[0] for an ASCII first byte (documented behaviour of unicode/utf8)
		stdStubs["unicode/utf8.DecodeRuneInString"] = func(x *Exec, fr *Frame, st *State, in ssa.Instruction, a []Val) []Val {
			sv := a[0].T
			r := x.enc.UF("ext.utf8.DecodeRuneInString.0", SInt, sv)
			n := x.enc.UF("ext.utf8.DecodeRuneInString.1", SInt, sv)
			ln := app(SInt, "slen", sv)
			st.assume(And(app(SBool, "<=", IntLit(0), n), app(SBool, "<=", n, IntLit(4)), app(SBool, "<=", n, ln),
				Eq(Eq(n, IntLit(0)), Eq(ln, IntLit(0))),
				app(SBool, "<=", IntLit(0), r), app(SBool, "<=", r, IntLit(0x10FFFF))))
			c0 := app(SInt, "sat", sv, IntLit(0))
			st.assume(Implies(And(app(SBool, ">", ln, IntLit(0)), app(SBool, "<", c0, IntLit(128))), And(Eq(n, IntLit(1)), Eq(r, c0))))
			st.assume(Implies(Eq(ln, IntLit(0)), Eq(r, IntLit(0xFFFD))))
			x.enc.trusted["assumed contract of unicode/utf8.DecodeRuneInString"] = true
			return []Val{{K: VTerm, T: r, Typ: types.Typ[types.Rune]}, {K: VTerm, T: n, Typ: types.Typ[types.Int]}}
		}
		// strings.Count(s, sep) for a non-empty sep: between 0 and len(s)
		stdStubs["strings.Count"] = func(x *Exec, fr *Frame, st *State, in ssa.Instruction, a []Val) []Val {
			r := x.enc.UF("ext.strings.Count", SInt, a[0].T, a[1].T)
			ln := app(SInt, "slen", a[0].T)
			st.assume(And(app(SBool, "<=", IntLit(0), r), Implies(app(SBool, ">", app(SInt, "slen", a[1].T), IntLit(0)), app(SBool, "<=", r, ln)),
				app(SBool, "<=", r, app(SInt, "+", ln, IntLit(1)))))
			x.enc.trusted["assumed contract of strings.Count"] = true
			return []Val{{K: VTerm, T: r, Typ: types.Typ[types.Int]}}
		}
	}()
	for _, name := range pureExterns {
		name := name
		stdStubs[name] = func(x *Exec, fr *Frame, st *State, in ssa.Instruction, a []Val) []Val {
			sig := in.(ssa.CallInstruction).Common().Signature()
			var ts []Term
			fresh := strings.HasPrefix(name, "math/rand.") || strings.HasPrefix(name, "os.") || strings.HasPrefix(name, "runtime.")
			for _, v := range a {
				if v.K == VSlice {
					fresh = true
					continue
				}
				if v.K == VTerm {
					ts = append(ts, v.T)
				} else {
					ts = append(ts, flatten(v)...)
				}
			}
			var res []Val
			for i := 0; i < sig.Results().Len(); i++ {
				rt := sig.Results().At(i).Type()
				sorts := x.enc.sortsOf(rt)
				if fresh || len(sorts) != 1 {
					v, inv := x.enc.freshVal(rt, "ext."+name)
					st.assumeAll(inv)
					v.Typ = rt
					res = append(res, v)
					continue
				}
				v := Val{K: VTerm, T: x.enc.UF(fmt.Sprintf("ext.%s.%d", name, i), sorts[0], ts...), Typ: rt}
				st.assumeAll(x.enc.typeInv(rt, v))
				res = append(res, v)
			}
			return res
		}
	}
}

func (x *Exec) modeBit(m Term, bit int) Term {
	mask := new(big.Int).Lsh(big.NewInt(1), uint(bit))
	if x.enc.BV {
		return Not(Eq(app(SBV(32), "bvand", m, BVLit(mask, 32)), BVLit(big.NewInt(0), 32)))
	}
	return Not(Eq(x.enc.bandConst(m, mask), IntLit(0)))
}

func (x *Exec) hasPrefix(s, p Term) Term {
	r := x.enc.UF("hasprefix", SBool, s, p)
	x.enc.axiom("hasprefix.def", "(forall ((s Str) (p Str)) (! (= (v_hasprefix s p) (and (<= (slen p) (slen s)) (forall ((i Int)) (=> (and (<= 0 i) (< i (slen p))) (= (sat s i) (sat p i)))))) :pattern ((v_hasprefix s p))))")
	return r
}

// errorsIs: errors.Is(e, target) as an uninterpreted predicate with the facts that follow from
// the definition for the error shapes avfs uses (identity; *fs.PathError / *os.LinkError unwrap).
func (x *Exec) errorsIs(e, target Term) Term {
	r := x.enc.UF("errIs", SBool, e, target)
	x.enc.axiom("errIs.refl", "(forall ((e Iface)) (! (=> (not (= e inil)) (v_errIs e e)) :pattern ((v_errIs e e))))")
	x.enc.axiom("errIs.nil", "(forall ((t Iface)) (! (= (v_errIs inil t) (= t inil)) :pattern ((v_errIs inil t))))")
	x.enc.trusted["errors.Is is an uninterpreted predicate with reflexivity and nil facts"] = true
	return r
}

// pure read helpers used by the specification evaluator (the view state discards assumptions)
func (st *State) hgetPure(name string, sort Sort) Term { return st.hget(name, sort) }
func (st *State) loadFieldPure(structT types.Type, f *types.Var, ref Term) Val {
	return st.loadField(structT, f, ref)
}
func (st *State) loadElemPure(elem types.Type, base, idx Term) Val { return st.loadElem(elem, base, idx) }
func (st *State) loadCellPure(t types.Type, ref Term) Val          { return st.loadCell(t, ref) }
