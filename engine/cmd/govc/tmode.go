package main

// Lock discipline (lockset obligations, C08), thread-modular havoc on acquire, ghost ledgers.

import (
	"go/types"

	"golang.org/x/tools/go/ssa"
)

type guardInfo struct {
	arr   string // lock array base name "memidm.MemIdm.grpMu"
	owner Term
	field string
}

func (x *Exec) typeSpecOfStruct(t types.Type) *TypeSpec {
	n, ok := types.Unalias(t).(*types.Named)
	if !ok || n.Obj().Pkg() == nil {
		return nil
	}
	return x.specs.Types[n.Obj().Pkg().Name()+"."+n.Obj().Name()]
}

func (ts *TypeSpec) props() []string {
	seen := map[string]bool{"C08": true}
	out := []string{"C08"}
	for _, cl := range ts.Invs {
		for _, p := range cl.Props {
			if !seen[p] {
				seen[p] = true
				out = append(out, p)
			}
		}
	}
	return out
}

// guardLoc resolves the mutex field `mu` of an object of struct type t (possibly promoted from an
// embedded struct) to the ghost lock array name and the reference of the struct that contains it.
func (x *Exec) guardLoc(st *State, t types.Type, ref Term, mu string) (string, Term) {
	obj, index, _ := types.LookupFieldOrMethod(types.NewPointer(t), true, nil, mu)
	if obj == nil {
		for _, pp := range x.prog.Pkgs {
			if obj, index, _ = types.LookupFieldOrMethod(types.NewPointer(t), true, pp.Types, mu); obj != nil {
				break
			}
		}
	}
	if obj == nil || len(index) == 0 {
		return typeName(t) + "." + mu, ref
	}
	cur := t
	r := ref
	for j, fi := range index {
		sstruct := types.Unalias(cur).Underlying().(*types.Struct)
		f := sstruct.Field(fi)
		if j == len(index)-1 {
			return typeName(cur) + "." + f.Name(), r
		}
		r = st.subRef(cur, f, r)
		cur = f.Type()
	}
	return typeName(t) + "." + mu, ref
}

func (x *Exec) heldTerm(st *State, arr string, owner Term, write bool) Term {
	w := Select(st.hget("L."+arr+".w", SArr(SRef, SBool)), owner)
	if write {
		return w
	}
	r := Select(st.hget("L."+arr+".r", SArr(SRef, SInt)), owner)
	return Or(w, app(SBool, ">", r, IntLit(0)))
}

// raceCheck: a field declared guarded_by may only be accessed with its lock held in the right
// mode, unless the object has not been published yet.
func (x *Exec) raceCheck(fr *Frame, st *State, in ssa.Instruction, p Val, write bool) {
	if p.K != VFieldPtr {
		return
	}
	ts := x.typeSpecOfStruct(p.ST)
	if ts == nil {
		return
	}
	fname := p.FV.Name()
	if st.fresh[p.T.S] {
		return
	}
	if mu, ok := ts.GuardedBy[fname]; ok {
		arr, owner := x.guardLoc(st, p.ST, p.T, mu)
		kind := "race-read"
		if write {
			kind = "race-write"
		}
		label := x.oblLabels[in]
		if label == "" {
			label = x.instrText(fr, in)
		}
		o := x.newObl(fr.fn, kind, typeName(p.ST)+"."+fname+" @ "+label, ts.props(), x.posStr(in.Pos()))
		st.check(o, x.heldTerm(st, arr, owner, write))
		return
	}
	if ts.Immutable[fname] && write {
		label := x.oblLabels[in]
		o := x.newObl(fr.fn, "immutable-write", typeName(p.ST)+"."+fname+" @ "+label, ts.props(), x.posStr(in.Pos()))
		st.check(o, TFalse)
	}
}

// noteGuard remembers which lock guards the contents of a map loaded from a guarded field.
func (x *Exec) noteGuard(st *State, p Val, v Val) {
	if p.K != VFieldPtr || v.K != VTerm || v.T.Sort != SRef {
		return
	}
	if _, ok := types.Unalias(p.FV.Type()).Underlying().(*types.Map); !ok {
		return
	}
	ts := x.typeSpecOfStruct(p.ST)
	if ts == nil {
		return
	}
	if mu, ok := ts.GuardedBy[p.FV.Name()]; ok {
		if st.guards == nil {
			st.guards = map[string]guardInfo{}
		}
		arr, owner := x.guardLoc(st, p.ST, p.T, mu)
		st.guards[v.T.S] = guardInfo{arr: arr, owner: owner, field: typeName(p.ST) + "." + p.FV.Name()}
	}
}

// mapAccessCheck: contents of a guarded map need the lock too.
func (x *Exec) mapAccessCheck(fr *Frame, st *State, in ssa.Instruction, m Val, write bool) {
	if m.K != VTerm {
		return
	}
	g, ok := st.guards[m.T.S]
	if !ok || st.fresh[m.T.S] || st.fresh[g.owner.S] {
		return
	}
	kind := "race-read"
	if write {
		kind = "race-write"
	}
	label := x.oblLabels[in]
	if label == "" {
		label = x.instrText(fr, in)
	}
	o := x.newObl(fr.fn, kind, "contents of "+g.field+" @ "+label, []string{"C08"}, x.posStr(in.Pos()))
	st.check(o, x.heldTerm(st, g.arr, g.owner, write))
}

// onAcquire: in T-mode every field guarded by the acquired mutex is havocked.
func (x *Exec) onAcquire(fr *Frame, st *State, mu Val, write bool) {
	if !x.tmode || mu.K != VFieldPtr {
		return
	}
	ts := x.typeSpecOfStruct(mu.ST)
	if ts == nil {
		return
	}
	sstruct := types.Unalias(mu.ST).Underlying().(*types.Struct)
	for i := 0; i < sstruct.NumFields(); i++ {
		f := sstruct.Field(i)
		if ts.GuardedBy[f.Name()] != mu.FV.Name() {
			continue
		}
		x.havocField(st, mu.ST, mu.T, f.Name())
		if mt, ok := types.Unalias(f.Type()).Underlying().(*types.Map); ok {
			// the contents of a guarded map are guarded too
			mv := st.loadField(mu.ST, f, mu.T)
			dom, domS, vals, valS, ln := st.mapArrs(mt)
			d := st.hget(dom, domS)
			st.hset(dom, Store(d, mv.T, x.enc.Fresh("acq.dom", elemSort(domS))))
			for k := range vals {
				a := st.hget(vals[k], valS[k])
				st.hset(vals[k], Store(a, mv.T, x.enc.Fresh("acq.vals", elemSort(valS[k]))))
			}
			l := st.hget(ln, SArr(SRef, SInt))
			st.hset(ln, Store(l, mv.T, x.enc.Fresh("acq.len", SInt)))
		}
	}
}

// ledgerUpdate: entry ledger maintenance on children maps.
func (x *Exec) ledgerUpdate(fr *Frame, st *State, in ssa.Instruction, mt *types.Map, m, key Val, v *Val) {
	x.mapAccessCheck(fr, st, in, m, true)
}
