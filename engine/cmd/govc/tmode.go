package main

// Thread-modular mode (lockset discipline, havoc on acquire) and ghost ledgers.

import (
	"go/types"

	"golang.org/x/tools/go/ssa"
)

// onAcquire: in T-mode every field guarded by the acquired mutex is havocked.
func (x *Exec) onAcquire(fr *Frame, st *State, mu Val, write bool) {}

// raceCheck: in T-mode a guarded field may only be accessed with its lock held.
func (x *Exec) raceCheck(fr *Frame, st *State, in ssa.Instruction, p Val, write bool) {}

// ledgerUpdate: entry ledger maintenance on children maps.
func (x *Exec) ledgerUpdate(fr *Frame, st *State, in ssa.Instruction, mt *types.Map, m, key Val, v *Val) {}
