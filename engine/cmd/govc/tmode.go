package main

// Lock discipline (lockset obligations, C08), thread-modular havoc on acquire, ghost ledgers.

import (
	"fmt"
	"go/types"
	"regexp"
	"strings"

	"golang.org/x/tools/go/ssa"
)

type guardInfo struct {
	arr   string // lock array base name "memidm.MemIdm.grpMu"
	owner Term
	field string
}

func (x *Exec) typeSpecOfStruct(t types.Type) *TypeSpec {
	n, ok := types.Unalias(t).(*types.Named)
	if !ok || n.Obj().Pkg() == nil {
		return nil
	}
	return x.specs.Types[n.Obj().Pkg().Name()+"."+n.Obj().Name()]
}

func (ts *TypeSpec) props() []string {
	seen := map[string]bool{"C08": true}
	out := []string{"C08"}
	for _, cl := range ts.Invs {
		for _, p := range cl.Props {
			if !seen[p] {
				seen[p] = true
				out = append(out, p)
			}
		}
	}
	return out
}

// guardLoc resolves the mutex field `mu` of an object of struct type t (possibly promoted from an
// embedded struct) to the ghost lock array name and the reference of the struct that contains it.
func (x *Exec) guardLoc(st *State, t types.Type, ref Term, mu string) (string, Term) {
	obj, index, _ := types.LookupFieldOrMethod(types.NewPointer(t), true, nil, mu)
	if obj == nil {
		for _, pp := range x.prog.Pkgs {
			if obj, index, _ = types.LookupFieldOrMethod(types.NewPointer(t), true, pp.Types, mu); obj != nil {
				break
			}
		}
	}
	if obj == nil || len(index) == 0 {
		return typeName(t) + "." + mu, ref
	}
	cur := t
	r := ref
	for j, fi := range index {
		sstruct := types.Unalias(cur).Underlying().(*types.Struct)
		f := sstruct.Field(fi)
		if j == len(index)-1 {
			return typeName(cur) + "." + f.Name(), r
		}
		r = st.subRef(cur, f, r)
		cur = f.Type()
	}
	return typeName(t) + "." + mu, ref
}

func (x *Exec) heldTerm(st *State, arr string, owner Term, write bool) Term {
	w := Select(st.hget("L."+arr+".w", SArr(SRef, SBool)), owner)
	if write {
		return w
	}
	r := Select(st.hget("L."+arr+".r", SArr(SRef, SInt)), owner)
	return Or(w, app(SBool, ">", r, IntLit(0)))
}

// raceCheck: a field declared guarded_by may only be accessed with its lock held in the right
// mode, unless the object has not been published yet.
func (x *Exec) raceCheck(fr *Frame, st *State, in ssa.Instruction, p Val, write bool) {
	if p.K != VFieldPtr {
		return
	}
	ts := x.typeSpecOfStruct(p.ST)
	if ts == nil {
		return
	}
	fname := p.FV.Name()
	if st.fresh[rootRefText(p.T.S)] {
		return
	}
	if mu, ok := ts.GuardedBy[fname]; ok {
		arr, owner := x.guardLoc(st, p.ST, p.T, mu)
		kind := "race-read"
		if write {
			kind = "race-write"
		}
		label := x.oblLabels[in]
		if label == "" {
			label = x.instrText(fr, in)
		}
		o := x.newObl(fr.fn, kind, typeName(p.ST)+"."+fname+" @ "+label, ts.props(), x.posStr(in.Pos()))
		st.check(o, x.heldTerm(st, arr, owner, write))
		return
	}
	if ts.Immutable[fname] && write {
		label := x.oblLabels[in]
		o := x.newObl(fr.fn, "immutable-write", typeName(p.ST)+"."+fname+" @ "+label, ts.props(), x.posStr(in.Pos()))
		st.check(o, TFalse)
	}
}

// noteGuard remembers which lock guards the contents of a map loaded from a guarded field.
func (x *Exec) noteGuard(st *State, p Val, v Val) {
	if p.K != VFieldPtr || v.K != VTerm || v.T.Sort != SRef {
		return
	}
	if _, ok := types.Unalias(p.FV.Type()).Underlying().(*types.Map); !ok {
		return
	}
	ts := x.typeSpecOfStruct(p.ST)
	if ts == nil {
		return
	}
	if mu, ok := ts.GuardedBy[p.FV.Name()]; ok {
		if st.guards == nil {
			st.guards = map[string]guardInfo{}
		}
		arr, owner := x.guardLoc(st, p.ST, p.T, mu)
		st.guards[v.T.S] = guardInfo{arr: arr, owner: owner, field: typeName(p.ST) + "." + p.FV.Name()}
	}
}

// mapAccessCheck: contents of a guarded map need the lock too.
func (x *Exec) mapAccessCheck(fr *Frame, st *State, in ssa.Instruction, m Val, write bool) {
	if m.K != VTerm {
		return
	}
	g, ok := st.guards[m.T.S]
	if !ok || st.fresh[m.T.S] || st.fresh[rootRefText(g.owner.S)] {
		return
	}
	kind := "race-read"
	if write {
		kind = "race-write"
	}
	label := x.oblLabels[in]
	if label == "" {
		label = x.instrText(fr, in)
	}
	o := x.newObl(fr.fn, kind, "contents of "+g.field+" @ "+label, []string{"C08"}, x.posStr(in.Pos()))
	st.check(o, x.heldTerm(st, g.arr, g.owner, write))
}

// onAcquire: in T-mode every field guarded by the acquired mutex is havocked: other threads may
// have changed it since this thread last held the lock.  The mutex may live in an embedded struct
// (memfs: dirNode embeds baseNode, which holds mu): the fields of the enclosing objects that
// declare this mutex as their guard are havocked too.
func (x *Exec) onAcquire(fr *Frame, st *State, mu Val, write bool) {
	if !x.tmode || mu.K != VFieldPtr {
		return
	}
	x.havocGuarded(st, mu.ST, mu.T, mu.FV.Name())
	// enclosing objects: (v_sub.<T>.<f> inner)
	cur := mu.T.S
	for strings.HasPrefix(cur, "(v_sub.") && strings.HasSuffix(cur, ")") {
		sp := strings.Index(cur, " ")
		if sp < 0 {
			break
		}
		sel := cur[len("(v_sub."):sp] // <pkg.T>.<field>
		inner := cur[sp+1 : len(cur)-1]
		dot := strings.LastIndex(sel, ".")
		if dot < 0 {
			break
		}
		tname := sel[:dot]
		if outer := x.structTypeByName(tname); outer != nil {
			x.havocGuarded(st, outer, Term{inner, SRef}, mu.FV.Name())
		}
		cur = inner
	}
}

// havocGuarded havocs the fields of the object ref (of struct type t) whose declared guard is mutex field mu.
func (x *Exec) havocGuarded(st *State, t types.Type, ref Term, mu string) {
	ts := x.typeSpecOfStruct(t)
	if ts == nil {
		return
	}
	sstruct, ok := types.Unalias(t).Underlying().(*types.Struct)
	if !ok {
		return
	}
	for i := 0; i < sstruct.NumFields(); i++ {
		f := sstruct.Field(i)
		if ts.GuardedBy[f.Name()] != mu {
			continue
		}
		x.havocField(st, t, ref, f.Name())
		if mt, ok := types.Unalias(f.Type()).Underlying().(*types.Map); ok {
			// the contents of a guarded map are guarded too
			mv := st.loadField(t, f, ref)
			dom, domS, vals, valS, ln := st.mapArrs(mt)
			d := st.hget(dom, domS)
			st.hset(dom, Store(d, mv.T, x.enc.Fresh("acq.dom", elemSort(domS))))
			for k := range vals {
				a := st.hget(vals[k], valS[k])
				st.hset(vals[k], Store(a, mv.T, x.enc.Fresh("acq.vals", elemSort(valS[k]))))
			}
			l := st.hget(ln, SArr(SRef, SInt))
			nl := x.enc.Fresh("acq.len", SInt)
			st.assume(And(app(SBool, "<=", IntLit(0), nl), app(SBool, "<=", nl, IntLit(1<<48))))
			st.hset(ln, Store(l, mv.T, nl))
		}
	}
}

// structTypeByName finds a named struct type of the module by its "pkg.Name".
func (x *Exec) structTypeByName(name string) types.Type {
	dot := strings.Index(name, ".")
	if dot < 0 {
		return nil
	}
	pkg, tn := name[:dot], name[dot+1:]
	for _, pp := range x.prog.Pkgs {
		if pp.Types.Name() != pkg {
			continue
		}
		if o, ok := pp.Types.Scope().Lookup(tn).(*types.TypeName); ok {
			if _, isS := o.Type().Underlying().(*types.Struct); isS {
				return o.Type()
			}
		}
	}
	return nil
}

// ledgerUpdate: entry ledger maintenance on children maps.
func (x *Exec) ledgerUpdate(fr *Frame, st *State, in ssa.Instruction, mt *types.Map, m, key Val, v *Val) {
	x.mapAccessCheck(fr, st, in, m, true)
	// "at store <field> assert" clauses of the function being executed
	if fr.contract == nil || m.K != VTerm {
		return
	}
	g, ok := st.guards[m.T.S]
	if !ok {
		return
	}
	// ordinal of this store among the map stores of the function, in source order
	ord := 0
	for _, b := range fr.fn.Blocks {
		for _, in2 := range b.Instrs {
			if mu, isMU := in2.(*ssa.MapUpdate); isMU && mu != in && mu.Pos() < in.Pos() {
				ord++
			}
		}
	}
	for _, cl := range fr.contract.AtCalls {
		if cl.Callee != "store:"+g.field && cl.Callee != fmt.Sprintf("store:%s#%d", g.field, ord) {
			continue
		}
		env := x.loopEnv(fr, st)
		kv := key
		kv.Typ = mt.Key()
		env.vars["key"] = kv
		vv := *v
		vv.Typ = mt.Elem()
		env.vars["val"] = vv
		mv := m
		mv.Typ = mt
		env.vars["themap"] = mv
		t, err := env.EvalBool(cl.Node)
		if err != nil {
			x.abort("at store %s: %v", g.field, err)
		}
		x.clauseUsed[cl]++
		st.check(x.newObl(fr.fn, "assert@"+cl.Callee, cl.Label(), cl.Props, cl.Source), t)
	}
}

// entryLockFact: the ghost lock state at entry.  Nothing is held, except the locks named in
// `requires held(x.mu)` / `requires wheld(x.mu)` clauses of the unit's contract.
func (x *Exec) entryLockFact(name, smtName string, w bool) string {
	arr := strings.TrimSuffix(strings.TrimSuffix(strings.TrimPrefix(name, "L."), ".w"), ".r")
	exc := x.entryHeld[arr]
	if len(exc) == 0 {
		if w {
			return fmt.Sprintf("(= %s ((as const (Array Ref Bool)) false))", smtName)
		}
		return fmt.Sprintf("(= %s ((as const (Array Ref Int)) 0))", smtName)
	}
	var ne []string
	for _, e := range exc {
		ne = append(ne, fmt.Sprintf("(not (= r!e %s))", e.S))
	}
	body := fmt.Sprintf("(not (select %s r!e))", smtName)
	if !w {
		body = fmt.Sprintf("(= (select %s r!e) 0)", smtName)
	}
	return fmt.Sprintf("(forall ((r!e Ref)) (! (=> (and %s) %s) :pattern ((select %s r!e))))", strings.Join(ne, " "), body, smtName)
}

var heldRe = regexp.MustCompile(`\bw?held\(([^()]+)\)`)

// collectEntryHeld evaluates the owners of the locks the contract requires to be held.
func (x *Exec) collectEntryHeld(fr *Frame, st *State) {
	x.entryHeld = map[string][]Term{}
	if x.contract == nil {
		return
	}
	env := x.specEnv(fr, st, nil)
	for _, cl := range x.contract.Requires {
		for _, m := range heldRe.FindAllStringSubmatch(cl.Text, -1) {
			expr := strings.TrimSpace(m[1])
			i := strings.LastIndex(expr, ".")
			if i < 0 {
				continue
			}
			n, err := ParseSpec(expr[:i])
			if err != nil {
				continue
			}
			ov, err := env.EvalVal(n)
			if err != nil || ov.Typ == nil {
				continue
			}
			pt, ok := types.Unalias(ov.Typ).Underlying().(*types.Pointer)
			if !ok {
				continue
			}
			arr, owner := x.guardLoc(st, pt.Elem(), ov.T, expr[i+1:])
			x.entryHeld[arr] = append(x.entryHeld[arr], owner)
		}
	}
}

// rootRefText strips sub-object selectors: (v_sub.T.f r) -> r.
func rootRefText(s string) string {
	for strings.HasPrefix(s, "(v_sub.") && strings.HasSuffix(s, ")") {
		i := strings.Index(s, " ")
		if i < 0 {
			break
		}
		s = s[i+1 : len(s)-1]
	}
	return s
}
