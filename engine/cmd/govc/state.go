package main

// Path state: registers, local cells, heap (Burstall-Bornat arrays with versions),
// ghost lock state, event trace, and the script being built for this path.

import (
	"regexp"
	"fmt"
	"go/types"
	"strings"

	"golang.org/x/tools/go/ssa"
)

type Event struct {
	Site    string // e.g. "srcFs.OpenFile" (receiver expression text + method) or function name
	Callee  string // method or function name, e.g. "OpenFile", "io.CopyBuffer"
	Full    string // full callee identity e.g. "(avfs.VFSBase).OpenFile"
	Recv    *Val
	Args    []Val
	Results []Val
	ErrIdx  int // index of the error result, -1 if none
	Seq     int
}

type deferred struct {
	call *ssa.CallCommon
	fn   Val
	args []Val
	recv *Val
	site ssa.Instruction
}

type lockRef struct {
	arr   string
	owner Term
	desc  string
}

type State struct {
	x        *Exec
	items    []Item
	regs     map[ssa.Value]Val
	cells    map[*Cell]Val
	heap     map[string]Term
	defers   map[int][]deferred
	events   []Event
	fresh    map[string]bool // unpublished object refs (term text)
	locks    []lockRef
	path     []string
	loopSnap map[string][]Term // variant snapshots per loop key
	nAssume  int
	guards   map[string]guardInfo
	lockSnapNames map[string][]string
	loopFrame     map[string][]string
	names    map[string]ssa.Value // source-level variable name (per frame) -> the SSA value currently holding it
	havocked bool    // some callee may have changed arrays this path has not touched yet
	sink     *[]Term // specification views: facts produced by heap reads are collected here
}

func (st *State) clone() *State {
	n := &State{x: st.x}
	n.items = st.items[:len(st.items):len(st.items)]
	n.regs = make(map[ssa.Value]Val, len(st.regs)+8)
	for k, v := range st.regs {
		n.regs[k] = v
	}
	n.cells = make(map[*Cell]Val, len(st.cells))
	for k, v := range st.cells {
		n.cells[k] = v
	}
	n.heap = make(map[string]Term, len(st.heap))
	for k, v := range st.heap {
		n.heap[k] = v
	}
	n.defers = make(map[int][]deferred, len(st.defers))
	for k, v := range st.defers {
		n.defers[k] = v[:len(v):len(v)]
	}
	n.events = st.events[:len(st.events):len(st.events)]
	n.fresh = make(map[string]bool, len(st.fresh))
	for k, v := range st.fresh {
		n.fresh[k] = v
	}
	n.locks = st.locks[:len(st.locks):len(st.locks)]
	n.path = st.path[:len(st.path):len(st.path)]
	n.loopSnap = make(map[string][]Term, len(st.loopSnap))
	for k, v := range st.loopSnap {
		n.loopSnap[k] = v
	}
	n.nAssume = st.nAssume
	n.havocked = st.havocked
	n.names = make(map[string]ssa.Value, len(st.names))
	for k, v := range st.names {
		n.names[k] = v
	}
	n.loopFrame = make(map[string][]string, len(st.loopFrame))
	for k, v := range st.loopFrame {
		n.loopFrame[k] = v
	}
	n.lockSnapNames = make(map[string][]string, len(st.lockSnapNames))
	for k, v := range st.lockSnapNames {
		n.lockSnapNames[k] = v
	}
	if st.guards != nil {
		n.guards = make(map[string]guardInfo, len(st.guards))
		for k, v := range st.guards {
			n.guards[k] = v
		}
	}
	return n
}

func (st *State) assume(t Term) {
	if t.S == "true" {
		return
	}
	if st.sink != nil {
		*st.sink = append(*st.sink, t)
		return
	}
	st.nAssume++
	st.items = append(st.items, Item{Kind: ItAssert, Text: t.S})
}

func (st *State) assumeAll(ts []Term) {
	for _, t := range ts {
		st.assume(t)
	}
}

func (st *State) comment(s string) {
	st.items = append(st.items, Item{Kind: ItComment, Text: s})
}

// check emits an obligation and then assumes its goal (assert-then-assume).
func (st *State) check(o *Obligation, goal Term) {
	if st.x.assumeFalseAtExit && o.Kind != "cover" {
		return // vacuity probe: only reachability of the exits is asked
	}
	goal = st.x.applyKnown(o, goal)
	o.Path = strings.Join(st.path, ">")
	o.Goal = goal.S
	if goal.S != "true" {
		st.items = append(st.items, Item{Kind: ItCheck, Text: goal.S, Obl: o})
		// After a check the execution continues under the checked condition - except for the lock
		// discipline: a thread that reads or writes a guarded field without the lock does run on,
		// so assuming "the lock is held" would make everything after a racy access vacuous.
		if !lockDisciplineObl(o) {
			st.assume(goal)
		}
	} else {
		st.items = append(st.items, Item{Kind: ItCheck, Text: "true", Obl: o})
	}
}

// ---------------------------------------------------------------------------
// Heap

func (st *State) initHeap(name string, sort Sort) Term {
	n := mangle(name) + "@0"
	e := st.x.enc
	if !e.declared[n] {
		e.declare(n, sort)
		t := Term{n, sort}
		st.x.arrOf[n] = name
		switch {
		case strings.HasSuffix(name, ".w") && strings.HasPrefix(name, "L."):
			// this call holds no lock on entry, except those its contract requires to be held
			e.decls = append(e.decls, "(assert "+st.x.entryLockFact(name, n, true)+")")
		case strings.HasSuffix(name, ".r") && strings.HasPrefix(name, "L."):
			e.decls = append(e.decls, "(assert "+st.x.entryLockFact(name, n, false)+")")
		case strings.HasPrefix(name, "MD."):
			// a nil map has no entries
			_, es := splitArr(sort)
			e.decls = append(e.decls, fmt.Sprintf("(assert (= (select %s null) ((as const %s) false)))", n, es))
		case strings.HasPrefix(name, "ML."):
			e.decls = append(e.decls, fmt.Sprintf("(assert (= (select %s null) 0))", n))
		case name != "alloc":
			if c := st.closure(t, Term{mangle("alloc") + "@0", SArr(SRef, SBool)}); c != "" {
				e.declare(mangle("alloc")+"@0", SArr(SRef, SBool))
				e.decls = append(e.decls, "(assert "+c+")")
			}
		}
	}
	st.x.heapSorts[name] = sort
	return Term{n, sort}
}

// closure: every reference stored in heap array arr is null or allocated (w.r.t. alloc).
// Returns "" when the array holds no references.
func (st *State) closure(arr Term, alloc Term) string {
	c := st.closure0(arr, alloc)
	if name, ok := st.x.arrOf[arr.S]; ok && st.x.closedIface[name] {
		// values of a closed-world (unexported) interface type never hold a typed nil pointer:
		// checked at every conversion to such an interface, assumed for every heap location
		is, es := splitArr(arr.Sort)
		var extra string
		if es == SIface {
			extra = fmt.Sprintf("(forall ((r!t %s)) (! (=> ((_ is iref) (select %s r!t)) (not (= (pref (select %s r!t)) null))) :pattern ((select %s r!t))))", is, arr.S, arr.S, arr.S)
		} else if es.IsArr() {
			ks, vs := splitArr(es)
			if vs == SIface {
				extra = fmt.Sprintf("(forall ((r!t %s) (k!t %s)) (! (=> ((_ is iref) (select (select %s r!t) k!t)) (not (= (pref (select (select %s r!t) k!t)) null))) :pattern ((select (select %s r!t) k!t))))", is, ks, arr.S, arr.S, arr.S)
			}
		}
		if extra != "" {
			if c == "" {
				return extra
			}
			return "(and " + c + " " + extra + ")"
		}
	}
	return c
}

func (st *State) closure0(arr Term, alloc Term) string {
	is, es := splitArr(arr.Sort)
	switch {
	case es == SRef:
		return fmt.Sprintf("(forall ((r!c %s)) (! (or (= (select %s r!c) null) (select %s (rootof (select %s r!c)))) :pattern ((select %s r!c))))", is, arr.S, alloc.S, arr.S, arr.S)
	case es == SIface:
		return fmt.Sprintf("(forall ((r!c %s)) (! (=> ((_ is iref) (select %s r!c)) (or (= (pref (select %s r!c)) null) (select %s (rootof (pref (select %s r!c)))))) :pattern ((select %s r!c))))", is, arr.S, arr.S, alloc.S, arr.S, arr.S)
	case es.IsArr():
		ks, vs := splitArr(es)
		switch vs {
		case SRef:
			return fmt.Sprintf("(forall ((r!c %s) (k!c %s)) (! (or (= (select (select %s r!c) k!c) null) (select %s (rootof (select (select %s r!c) k!c)))) :pattern ((select (select %s r!c) k!c))))", is, ks, arr.S, alloc.S, arr.S, arr.S)
		case SIface:
			return fmt.Sprintf("(forall ((r!c %s) (k!c %s)) (! (=> ((_ is iref) (select (select %s r!c) k!c)) (or (= (pref (select (select %s r!c) k!c)) null) (select %s (rootof (pref (select (select %s r!c) k!c)))))) :pattern ((select (select %s r!c) k!c))))", is, ks, arr.S, arr.S, alloc.S, arr.S, arr.S)
		}
	}
	return ""
}

func (st *State) hget(name string, sort Sort) Term {
	if t, ok := st.heap[name]; ok {
		return t
	}
	st.initHeap(name, sort) // registers the array (sort, closure axiom of the entry version)
	if st.havocked && !strings.HasPrefix(name, "L.") && name != "alloc" {
		// first touched after a call that may have changed everything: not the entry version
		st.hhavoc(name)
		return st.heap[name]
	}
	t := st.initHeap(name, sort)
	st.heap[name] = t
	return t
}

func (st *State) hset(name string, val Term) {
	v := st.x.enc.Fresh(name+"@", val.Sort)
	st.assume(Eq(v, val))
	st.heap[name] = v
	st.x.heapSorts[name] = val.Sort
}

func (st *State) hhavoc(name string) {
	sort, ok := st.x.heapSorts[name]
	if !ok {
		return
	}
	t := st.x.enc.Fresh(name+"@h", sort)
	st.x.arrOf[t.S] = name
	st.heap[name] = t
	if strings.HasPrefix(name, "MD.") {
		_, es := splitArr(sort)
		st.assume(Term{fmt.Sprintf("(= (select %s null) ((as const %s) false))", t.S, es), SBool})
	} else if strings.HasPrefix(name, "ML.") {
		st.assume(Eq(Select(t, TNull), IntLit(0)))
	} else if name != "alloc" && !strings.HasPrefix(name, "L.") {
		if c := st.closure(t, st.hget("alloc", SArr(SRef, SBool))); c != "" {
			st.assume(Term{c, SBool})
		}
	}
}

// havocAll forgets everything about the heap (used for unmodelled calls).
// growAlloc: a callee may allocate; what was allocated stays allocated.
func (st *State) growAlloc() Term {
	oldAlloc := st.hget("alloc", SArr(SRef, SBool))
	newAlloc := st.x.enc.Fresh("alloc@h", SArr(SRef, SBool))
	st.assume(Term{fmt.Sprintf("(forall ((r!a Ref)) (! (=> (select %s r!a) (select %s r!a)) :pattern ((select %s r!a))))", oldAlloc.S, newAlloc.S, oldAlloc.S), SBool})
	st.heap["alloc"] = newAlloc
	return oldAlloc
}

func (st *State) havocAll(except func(string) bool) {
	oldAlloc := st.growAlloc()
	// objects not yet published stay unknown to callees: still unallocated from the heap's point of view is not needed;
	// they are simply allocated (we set alloc when creating them).
	for _, name := range sortedKeys(st.x.heapSorts) {
		if strings.HasPrefix(name, "L.") || name == "alloc" {
			continue // lock state of this thread and allocation are not changed by callees in a way we rely on
		}
		if except != nil && except(name) {
			continue
		}
		st.hhavoc(name)
	}
	st.x.havocAllUsed = true
	st.havocked = true
	_ = oldAlloc
}

func fieldArrName(structT types.Type, f *types.Var) string {
	return "F." + typeName(structT) + "." + f.Name()
}

func compName(base string, k int) string {
	if k == 0 {
		return base
	}
	return fmt.Sprintf("%s.%d", base, k)
}

// subRef returns the reference of the embedded/by-value struct field f of object ref.
func (st *State) subRef(structT types.Type, f *types.Var, ref Term) Term {
	e := st.x.enc
	name := "sub." + typeName(structT) + "." + f.Name()
	m := mangle(name)
	if !e.declared[m] {
		e.declareFun(m, []Sort{SRef}, SRef)
		own := mangle("own." + typeName(structT) + "." + f.Name())
		e.declareFun(own, []Sort{SRef}, SRef)
		k := len(e.subKinds) + 1
		e.subKinds[name] = k
		e.decls = append(e.decls, fmt.Sprintf(
			"(assert (forall ((r Ref)) (! (and (= (%s (%s r)) r) (= (subkind (%s r)) %d) (not (= (%s r) null)) (= (rootof (%s r)) (rootof r))) :pattern ((%s r)))))",
			own, m, m, k, m, m, m))
	}
	return app(SRef, m, ref)
}

func isStructType(t types.Type) bool {
	_, ok := types.Unalias(t).Underlying().(*types.Struct)
	return ok
}

// loadField reads field f (of struct type structT) of the object at ref.
func (st *State) noteClosed(name string, t types.Type) {
	if isClosedIface(t) {
		st.x.closedIface[name] = true
	}
}

// isClosedIface: unexported interface type declared in the module (closed world of implementers).
func isClosedIface(t types.Type) bool {
	n, ok := types.Unalias(t).(*types.Named)
	if !ok || n.Obj().Exported() || n.Obj().Pkg() == nil {
		return false
	}
	if _, ok := n.Underlying().(*types.Interface); !ok {
		return false
	}
	return strings.HasPrefix(n.Obj().Pkg().Path(), "github.com/avfs/avfs")
}

func (st *State) loadField(structT types.Type, f *types.Var, ref Term) Val {
	ft := f.Type()
	if isMutexType(ft) {
		return Val{K: VStruct, Typ: ft}
	}
	if isStructType(ft) {
		return st.loadStruct(ft, st.subRef(structT, f, ref))
	}
	base := fieldArrName(structT, f)
	st.noteClosed(base, ft)
	sorts := st.x.enc.sortsOf(ft)
	var cs []Term
	for k, s := range sorts {
		arr := st.hget(compName(base, k), SArr(SRef, s))
		c := Select(arr, ref)
		cs = append(cs, c)
	}
	v, _ := st.x.enc.unflatten(ft, cs)
	st.assumeLoaded(ft, v)
	return v
}

// assumeLoaded adds the facts that hold for any value read from the heap:
// type ranges and "references found in the heap are allocated".
func (st *State) assumeLoaded(t types.Type, v Val) {
	st.assumeAll(st.x.enc.typeInv(t, v))
	if isClosedIface(t) && v.K == VTerm && v.T.Sort == SIface {
		st.assume(Implies(app(SBool, "(_ is iref)", v.T), Not(Eq(app(SRef, "pref", v.T), TNull))))
	}
	switch types.Unalias(t).Underlying().(type) {
	case *types.Interface:
		if v.K == VTerm && v.T.Sort == SIface {
			// a pointer held by an interface value that already exists points to an allocated object
			p := app(SRef, "pref", v.T)
			st.assume(Implies(app(SBool, "(_ is iref)", v.T), Or(Eq(p, TNull), st.isAlloc(p))))
		}
	case *types.Pointer, *types.Map:
		if v.K == VTerm && v.T.Sort == SRef {
			st.assume(Or(Eq(v.T, TNull), st.isAlloc(v.T)))
		}
	case *types.Slice:
		st.assume(Or(Eq(v.Parts[0].T, TNull), st.isAlloc(v.Parts[0].T)))
	}
}

// isAlloc: allocation is recorded for top-level objects; an embedded sub-object is allocated
// exactly when the object it is part of is.
func (st *State) isAlloc(r Term) Term {
	return Select(st.hget("alloc", SArr(SRef, SBool)), app(SRef, "rootof", r))
}

func (st *State) storeField(structT types.Type, f *types.Var, ref Term, v Val) {
	ft := f.Type()
	if isMutexType(ft) {
		return
	}
	if isStructType(ft) {
		st.storeStruct(ft, st.subRef(structT, f, ref), v)
		return
	}
	base := fieldArrName(structT, f)
	cs := flatten(st.storable(v))
	sorts := st.x.enc.sortsOf(ft)
	if len(cs) != len(sorts) {
		panic(fmt.Sprintf("storeField %s: %d comps for %d sorts (%s)", base, len(cs), len(sorts), v))
	}
	for k, s := range sorts {
		name := compName(base, k)
		arr := st.hget(name, SArr(SRef, s))
		st.hset(name, Store(arr, ref, cs[k]))
	}
	st.publish(v)
}

// storable turns Go-side-only values into heap-storable ones where possible.
func (st *State) storable(v Val) Val {
	switch v.K {
	case VFunc:
		return TV(v.T)
	case VClosure:
		return TV(st.x.enc.Fresh("closure", SFn))
	case VHeapCell:
		return TV(v.T)
	}
	return v
}

// publish marks every object reference inside v as escaped to the heap.
func (st *State) publish(v Val) {
	switch v.K {
	case VTerm:
		if v.T.Sort == SRef {
			delete(st.fresh, v.T.S)
		}
	case VSlice, VStruct, VTuple:
		for _, p := range v.Parts {
			st.publish(p)
		}
	}
}

func (st *State) loadStruct(t types.Type, ref Term) Val {
	s := types.Unalias(t).Underlying().(*types.Struct)
	v := Val{K: VStruct, Typ: t}
	for i := 0; i < s.NumFields(); i++ {
		v.Parts = append(v.Parts, st.loadField(t, s.Field(i), ref))
	}
	return v
}

func (st *State) storeStruct(t types.Type, ref Term, v Val) {
	s := types.Unalias(t).Underlying().(*types.Struct)
	if isMutexType(t) {
		return
	}
	if v.K != VStruct || len(v.Parts) != s.NumFields() {
		panic("storeStruct: shape mismatch for " + t.String() + ": " + v.String())
	}
	for i := 0; i < s.NumFields(); i++ {
		st.storeField(t, s.Field(i), ref, v.Parts[i])
	}
}

// newObject allocates a fresh object reference.
func (st *State) newObject(hint string) Term {
	r := st.x.enc.Fresh("new."+hint, SRef)
	alloc := st.hget("alloc", SArr(SRef, SBool))
	st.assume(Not(Eq(r, TNull)))
	st.assume(Not(Select(alloc, r)))
	st.assume(Eq(app(SInt, "subkind", r), IntLit(0)))
	st.assume(Eq(app(SRef, "rootof", r), r))
	st.hset("alloc", Store(alloc, r, TTrue))
	st.fresh[r.S] = true
	return r
}

// ---------------------------------------------------------------------------
// Slices and arrays: element arrays E.<elem> : Ref -> Int -> sigma

func elemArrName(elem types.Type) string { return "E." + typeName(elem) }

func (st *State) elemArrs(elem types.Type) ([]string, []Sort) {
	st.noteClosed(elemArrName(elem), elem)
	sorts := st.x.enc.sortsOf(elem)
	var names []string
	var as []Sort
	for k, s := range sorts {
		names = append(names, compName(elemArrName(elem), k))
		as = append(as, SArr(SRef, SArr(SInt, s)))
	}
	return names, as
}

func (st *State) loadElem(elem types.Type, base, idx Term) Val {
	names, as := st.elemArrs(elem)
	var cs []Term
	for k := range names {
		arr := st.hget(names[k], as[k])
		cs = append(cs, Select(Select(arr, base), idx))
	}
	v, _ := st.x.enc.unflatten(elem, cs)
	st.assumeLoaded(elem, v)
	return v
}

func (st *State) storeElem(elem types.Type, base, idx Term, v Val) {
	names, as := st.elemArrs(elem)
	cs := flatten(st.storable(v))
	for k := range names {
		arr := st.hget(names[k], as[k])
		st.hset(names[k], Store(arr, base, Store(Select(arr, base), idx, cs[k])))
	}
	st.publish(v)
}

// ---------------------------------------------------------------------------
// Maps: MD.<K>.<V> : Ref -> K -> Bool ; MV.<K>.<V>[.k] : Ref -> K -> sigma ; ML.<K>.<V> : Ref -> Int

func mapName(m *types.Map) string { return typeName(m.Key()) + "." + typeName(m.Elem()) }

func (st *State) mapArrs(m *types.Map) (dom string, domS Sort, vals []string, valS []Sort, ln string) {
	ks := st.x.enc.sortsOf(m.Key())
	if len(ks) != 1 {
		panic("map key with several components: " + m.String())
	}
	n := mapName(m)
	st.noteClosed("MV."+n, m.Elem())
	dom = "MD." + n
	domS = SArr(SRef, SArr(ks[0], SBool))
	for k, s := range st.x.enc.sortsOf(m.Elem()) {
		vals = append(vals, compName("MV."+n, k))
		valS = append(valS, SArr(SRef, SArr(ks[0], s)))
	}
	ln = "ML." + n
	return
}

func (st *State) mapDom(m *types.Map, ref, key Term) Term {
	dom, domS, _, _, _ := st.mapArrs(m)
	return Select(Select(st.hget(dom, domS), ref), key)
}

// mapRaw returns the stored value (meaningful only where dom holds).
func (st *State) mapRaw(m *types.Map, ref, key Term) Val {
	_, _, vals, valS, _ := st.mapArrs(m)
	var cs []Term
	for k := range vals {
		cs = append(cs, Select(Select(st.hget(vals[k], valS[k]), ref), key))
	}
	v, _ := st.x.enc.unflatten(m.Elem(), cs)
	return v
}

// mapGet returns m[key] with Go semantics (zero value when absent).
func (st *State) mapGet(m *types.Map, ref, key Term) Val {
	in := st.mapDom(m, ref, key)
	raw := flatten(st.mapRaw(m, ref, key))
	zero := flatten(st.x.enc.zeroVal(m.Elem()))
	var cs []Term
	for i := range raw {
		cs = append(cs, Ite(in, raw[i], zero[i]))
	}
	v, _ := st.x.enc.unflatten(m.Elem(), cs)
	return v
}

func (st *State) mapLen(m *types.Map, ref Term) Term {
	_, _, _, _, ln := st.mapArrs(m)
	return Select(st.hget(ln, SArr(SRef, SInt)), ref)
}

func (st *State) mapSet(m *types.Map, ref, key Term, v Val) {
	dom, domS, vals, valS, ln := st.mapArrs(m)
	d := st.hget(dom, domS)
	was := Select(Select(d, ref), key)
	l := st.hget(ln, SArr(SRef, SInt))
	st.hset(ln, Store(l, ref, Ite(was, Select(l, ref), app(SInt, "+", Select(l, ref), IntLit(1)))))
	st.hset(dom, Store(d, ref, Store(Select(d, ref), key, TTrue)))
	cs := flatten(st.storable(v))
	for k := range vals {
		a := st.hget(vals[k], valS[k])
		st.hset(vals[k], Store(a, ref, Store(Select(a, ref), key, cs[k])))
	}
	st.publish(v)
}

func (st *State) mapDelete(m *types.Map, ref, key Term) {
	dom, domS, _, _, ln := st.mapArrs(m)
	d := st.hget(dom, domS)
	was := Select(Select(d, ref), key)
	l := st.hget(ln, SArr(SRef, SInt))
	// delete on a nil map is a no-op; a nil map has an empty domain by the map axiom below
	st.hset(ln, Store(l, ref, Ite(was, app(SInt, "-", Select(l, ref), IntLit(1)), Select(l, ref))))
	st.hset(dom, Store(d, ref, Store(Select(d, ref), key, TFalse)))
}

// mapFacts: len >= 0 and len == 0 <=> empty domain, for the map at ref.
func (st *State) mapFacts(m *types.Map, ref Term) {
	dom, domS, _, _, _ := st.mapArrs(m)
	ks := st.x.enc.sortsOf(m.Key())[0]
	l := st.mapLen(m, ref)
	d := Select(st.hget(dom, domS), ref)
	st.assume(app(SBool, ">=", l, IntLit(0)))
	st.assume(Term{fmt.Sprintf("(= (= %s 0) (forall ((k!m %s)) (not (select %s k!m))))", l.S, ks, d.S), SBool})
}

func (st *State) newMap(m *types.Map) Term {
	r := st.newObject("map")
	dom, domS, _, _, ln := st.mapArrs(m)
	ks := st.x.enc.sortsOf(m.Key())[0]
	d := st.hget(dom, domS)
	st.hset(dom, Store(d, r, Term{fmt.Sprintf("((as const (Array %s Bool)) false)", ks), SArr(ks, SBool)}))
	l := st.hget(ln, SArr(SRef, SInt))
	st.hset(ln, Store(l, r, IntLit(0)))
	return r
}

// ---------------------------------------------------------------------------
// Heap cells for pointers to non-struct values: PC.<T>[.k] : Ref -> sigma

func (st *State) loadCell(t types.Type, ref Term) Val {
	if isStructType(t) {
		return st.loadStruct(t, ref)
	}
	sorts := st.x.enc.sortsOf(t)
	var cs []Term
	for k, s := range sorts {
		arr := st.hget(compName("PC."+typeName(t), k), SArr(SRef, s))
		cs = append(cs, Select(arr, ref))
	}
	v, _ := st.x.enc.unflatten(t, cs)
	st.assumeLoaded(t, v)
	return v
}

func (st *State) storeCell(t types.Type, ref Term, v Val) {
	if isStructType(t) {
		st.storeStruct(t, ref, v)
		return
	}
	cs := flatten(st.storable(v))
	for k, s := range st.x.enc.sortsOf(t) {
		name := compName("PC."+typeName(t), k)
		arr := st.hget(name, SArr(SRef, s))
		st.hset(name, Store(arr, ref, cs[k]))
	}
	st.publish(v)
}

var heldInText = regexp.MustCompile(`\bw?held\(`)

// lockDisciplineObl: obligations about holding a lock (lockset checks, requires held/wheld at call sites).
// A re-lock is different: sync.Mutex.Lock on a mutex the thread already holds never returns, so the
// execution does continue only if the mutex was free.
func lockDisciplineObl(o *Obligation) bool {
	switch o.Kind {
	case "race-read", "race-write", "immutable-write", "lock-balance", "lock-balance-loop", "frame-loop", "frame":
		// (balance and frame obligations are about the state reached: assuming them cannot be justified by
		// "the execution stops otherwise" either)
		return true
	}
	if strings.HasPrefix(o.Kind, "pre@") && heldInText.MatchString(o.ID) {
		return true
	}
	return false
}
