package main

// Calls: builtins, ghost lock operations, assumed standard-library contracts, callees by
// contract, inlining of small contract-less callees, opaque calls (events + havoc).

import (
	"fmt"
	"go/token"
	"math/big"
	"regexp"
	"go/types"
	"strings"

	"golang.org/x/tools/go/ssa"
)

var bigZero = big.NewInt(0)

var traceRe = regexp.MustCompile(`\b(called|failed|result|arg|recv|ncalls|before|nocall|onlycalls|callsto|firstcall)\(`)

const maxInlineDepth = 4

func (x *Exec) doCall(fr *Frame, st *State, in ssa.Instruction, c *ssa.CallCommon, k Cont) {
	var fnv Val
	var recv *Val
	if c.IsInvoke() {
		rv := x.val(st, c.Value)
		recv = &rv
	} else {
		if _, isB := c.Value.(*ssa.Builtin); !isB {
			fnv = x.val(st, c.Value)
		}
	}
	var args []Val
	for _, a := range c.Args {
		args = append(args, x.val(st, a))
	}
	x.doCallVals(fr, st, in, c, fnv, recv, args, k)
}

func resultTypes(sig *types.Signature) []types.Type {
	var out []types.Type
	for i := 0; i < sig.Results().Len(); i++ {
		out = append(out, sig.Results().At(i).Type())
	}
	return out
}

func errIndex(rts []types.Type) int {
	idx := -1
	for i, t := range rts {
		if types.Identical(t, types.Universe.Lookup("error").Type()) {
			idx = i
		}
	}
	return idx
}

func (x *Exec) doCallVals(fr *Frame, st *State, in ssa.Instruction, c *ssa.CallCommon, fnv Val, recv *Val, args []Val, k Cont) {
	site := x.callSite(fr, in)
	if c.IsInvoke() {
		x.invoke(fr, st, in, c, *recv, args, site, k)
		return
	}
	if b, ok := c.Value.(*ssa.Builtin); ok {
		k(st, x.builtin(fr, st, in, b, c, args))
		return
	}
	switch fnv.K {
	case VClosure:
		x.inlineCall(fr, st, in, fnv.Fn, args, fnv.Parts, k)
		return
	case VFunc:
		if fnv.Fn == nil {
			x.abort("call of builtin value")
		}
		x.staticCall(fr, st, in, fnv.Fn, args, site, k)
		return
	case VTerm:
		// function value from the heap or a parameter: opaque
		sig := types.Unalias(c.Value.Type()).Underlying().(*types.Signature)
		rv := fnv
		x.opaque(fr, st, in, site, "func-value", "funcvalue:"+site, &rv, args, resultTypes(sig), true, k)
		return
	}
	x.abort("call of %s", fnv)
}

// staticCall: a call whose callee is statically known.
func (x *Exec) staticCall(fr *Frame, st *State, in ssa.Instruction, fn *ssa.Function, args []Val, site string, k Cont) {
	name := fn.String()
	if fn.Origin() != nil {
		name = fn.Origin().String()
	}
	// ghost lock operations
	if strings.HasPrefix(name, "(*sync.RWMutex).") || strings.HasPrefix(name, "(*sync.Mutex).") {
		x.lockOp(fr, st, in, fn.Name(), args[0])
		k(st, nil)
		return
	}
	if h, ok := stdStubs[name]; ok {
		x.enc.trusted["assumed contract of "+name] = true
		res := h(x, fr, st, in, args)
		k(st, res)
		return
	}
	key := fullKey(fn)
	if fn.Origin() != nil {
		key = fullKey(fn.Origin())
	}
	if ct, ok := x.specs.Funcs[key]; ok && !ct.Flags["inline"] {
		x.callByContract(fr, st, in, fn, ct, nil, args, site, k)
		return
	}
	if ct, ok := x.specs.Funcs[name]; ok {
		// extern contract from the prelude ("io.CopyBuffer")
		x.callByContract(fr, st, in, fn, ct, nil, args, site, k)
		return
	}
	if fn.Synthetic != "" && len(fn.Blocks) > 0 && !x.onStack(fr, fn) && (strings.HasPrefix(fn.Synthetic, "wrapper") || strings.HasPrefix(fn.Synthetic, "bound") || strings.HasPrefix(fn.Synthetic, "thunk") || (strings.HasPrefix(fn.Synthetic, "instan") && fn.Origin() != nil && x.prog.moduleFunc(fn.Origin()))) {
		// compiler-generated wrapper (promoted method, bound method, instantiation): always entered
		nf := x.newFrame(fn, fr)
		nf.depth = fr.depth // wrappers do not count towards the inlining depth
		x.bindParams(st, fn, args)
		x.runBody(nf, st, k)
		return
	}
	if x.prog.moduleFunc(fn) && len(fn.Blocks) > 0 && fr.depth < maxInlineDepth && !x.onStack(fr, fn) && x.inlinable(fn) {
		x.inlineCall(fr, st, in, fn, args, nil, k)
		return
	}
	// unknown callee: opaque, havocs the heap
	x.enc.unmodel[name] = true
	x.opaque(fr, st, in, site, fn.Name(), name, nil, args, resultTypes(fn.Signature), true, k)
}

func (x *Exec) onStack(fr *Frame, fn *ssa.Function) bool {
	for f := fr; f != nil; f = f.parent {
		if f.fn == fn {
			return true
		}
	}
	return false
}

// inlinable: contract-less module functions are entered when they are small.
func (x *Exec) inlinable(fn *ssa.Function) bool {
	n := 0
	for _, b := range fn.Blocks {
		n += len(b.Instrs)
		for _, in := range b.Instrs {
			switch in.(type) {
			case *ssa.Range, *ssa.Next, *ssa.Go, *ssa.Select:
				return false
			}
		}
	}
	return n <= 400 && len(fn.Blocks) <= 40
}

func (x *Exec) inlineCall(fr *Frame, st *State, in ssa.Instruction, fn *ssa.Function, args []Val, bindings []Val, k Cont) {
	nf := x.newFrame(fn, fr)
	// values of concrete type passed for a type parameter are boxed (type parameters are modelled as interfaces)
	args = append([]Val{}, args...)
	for i, p := range fn.Params {
		if _, isTP := p.Type().(*types.TypeParam); isTP && i < len(args) && args[i].K == VTerm && args[i].T.Sort != SIface && args[i].Typ != nil {
			if _, argTP := args[i].Typ.(*types.TypeParam); !argTP && !types.IsInterface(args[i].Typ) {
				args[i] = Val{K: VTerm, T: x.makeIface(st, args[i], args[i].Typ), Typ: p.Type()}
			}
		}
	}
	x.bindParams(st, fn, args)
	for i, fv := range fn.FreeVars {
		st.regs[fv] = bindings[i]
	}
	st.path = append(st.path, "("+fn.Name())
	x.runBody(nf, st, func(st2 *State, res []Val) {
		st2.path = append(st2.path, ")")
		k(st2, res)
	})
}

// opaque: a call about which nothing is known except (optionally) a prelude contract.
func (x *Exec) opaque(fr *Frame, st *State, in ssa.Instruction, site, callee, full string, recv *Val, args []Val, rts []types.Type, havoc bool, k Cont) {
	x.atCallAsserts(fr, st, in, site, callee, recv, args)
	for _, a := range args {
		st.publish(a)
	}
	if recv != nil {
		st.publish(*recv)
	}
	if havoc {
		x.havocOpenWorld(st)
	}
	var res []Val
	for i, rt := range rts {
		v, inv := x.enc.freshVal(rt, fmt.Sprintf("ret.%s.%d", callee, i))
		v.Typ = rt
		st.assumeAll(inv)
		st.assumeLoaded(rt, v)
		res = append(res, v)
	}
	x.eventSeq++
	st.events = append(st.events, Event{Site: site, Callee: callee, Full: full, Recv: recv, Args: args, Results: res, ErrIdx: errIndex(rts), Seq: x.eventSeq})
	k(st, res)
}

// atCallAsserts checks "at call <callee> assert e" clauses of the enclosing function's contract.
func (x *Exec) atCallAsserts(fr *Frame, st *State, in ssa.Instruction, site, callee string, recv *Val, args []Val) {
	ct := fr.contract
	if ct == nil {
		return
	}
	for _, cl := range ct.AtCalls {
		if cl.Callee != site && cl.Callee != callee {
			continue
		}
		env := x.specEnv(fr, st, nil)
		for i, a := range args {
			env.vars[fmt.Sprintf("arg%d", i)] = a
		}
		if recv != nil {
			env.vars["callrecv"] = *recv
		}
		t, err := env.EvalBool(cl.Node)
		if err != nil {
			x.abort("at call %s: %v", cl.Callee, err)
		}
		x.clauseUsed[cl]++
		o := x.newObl(fr.fn, "assert@"+cl.Callee, cl.Label(), cl.Props, cl.Source)
		st.check(o, t)
	}
}

// invoke: interface method call.
func (x *Exec) invoke(fr *Frame, st *State, in ssa.Instruction, c *ssa.CallCommon, recv Val, args []Val, site string, k Cont) {
	m := c.Method
	recvT := c.Value.Type()
	x.safety(fr, st, in, "nil-iface", Not(Eq(recv.T, TINil)))
	sig := m.Type().(*types.Signature)
	rts := resultTypes(sig)
	// closed world: unexported interface declared in the module
	if named, ok := types.Unalias(recvT).(*types.Named); ok && !named.Obj().Exported() && named.Obj().Pkg() != nil && strings.HasPrefix(named.Obj().Pkg().Path(), "github.com/avfs/avfs") {
		impls := x.prog.implementers(named.Obj().Pkg(), named.Underlying().(*types.Interface))
		var tags []Term
		for _, it := range impls {
			tags = append(tags, x.ifaceIs(recv.T, it))
		}
		// every dynamic type is one of the implementers
		st.assume(Or(tags...))
		for i, it := range impls {
			sel := x.prog.SSA.MethodSets.MethodSet(it).Lookup(m.Pkg(), m.Name())
			if sel == nil {
				continue
			}
			callee := x.prog.SSA.MethodValue(sel)
			st2 := st
			if i < len(impls)-1 {
				st2 = st.clone()
			}
			tag := tags[i]
			itc := it
			x.guard(st2, func() {
				st2.assume(tag)
				pv := x.ifacePayload(recv.T, itc)
				pv = x.unboxPayload(st2, pv, itc)
				pv.Typ = itc
				x.staticCall(fr, st2, in, callee, append([]Val{pv}, args...), site, k)
			})
		}
		return
	}
	// dynamic type known (value boxed on this path): static dispatch
	if strings.HasPrefix(recv.T.S, "(iref ") {
		var tag int
		if _, err := fmt.Sscanf(recv.T.S, "(iref %d ", &tag); err == nil {
			if dt, ok := x.enc.tagTypes[tag]; ok {
				if sel := x.prog.SSA.MethodSets.MethodSet(dt).Lookup(m.Pkg(), m.Name()); sel != nil {
					if callee := x.prog.SSA.MethodValue(sel); callee != nil && x.prog.moduleFunc(callee) {
						pv := x.ifacePayload(recv.T, dt)
						pv.T = Term{strings.TrimSuffix(strings.TrimPrefix(recv.T.S, fmt.Sprintf("(iref %d ", tag)), ")"), SRef}
						pv.Typ = dt
						x.staticCall(fr, st, in, callee, append([]Val{pv}, args...), site, k)
						return
					}
				}
			}
		}
	}
	// open world: contract of the interface method from the prelude, if any
	full := fmt.Sprintf("(%s).%s", typeName(recvT), m.Name())
	if tp, ok := recvT.(*types.TypeParam); ok {
		// calls on a type parameter use the contracts of its constraint interface
		full = fmt.Sprintf("(%s).%s", typeName(tp.Constraint()), m.Name())
	}
	ct := x.ifaceContract(recvT, m.Name())
	if ct != nil && ct.Flags["pure"] {
		x.enc.trusted["assumed: "+full+" is a pure observer of its receiver"] = true
		res := x.pureMethod(st, m, recv, args)
		x.linkImplementers(fr, st, recvT, m, recv, res)
		// assumed facts about the pure observer (prelude ensures, over self / r0 / a0..)
		if len(ct.Ensures) > 0 {
			env := &SpecEnv{x: x, st: st.view(), vars: map[string]Val{}, pkg: x.pkgOfContract(ct, nil, nil)}
			rv := recv
			rv.Typ = recvT
			env.vars["self"] = rv
			env.vars["r0"] = res
			for i, a := range args {
				env.vars[fmt.Sprintf("a%d", i)] = a
			}
			env.old = env
			for _, cl := range ct.Ensures {
				if t, err := env.EvalAssume(cl.Node); err == nil {
					st.assume(t)
				}
			}
		}
		k(st, []Val{res})
		return
	}
	if ct != nil {
		rv := recv
		x.callByContract(fr, st, in, nil, ct, &rv, args, site, k)
		return
	}
	rv := recv
	x.opaque(fr, st, in, site, m.Name(), full, &rv, args, rts, true, k)
}

// ifaceContract looks a prelude contract up by "(pkg.Iface).Method", trying embedded interfaces by method name.
func (x *Exec) ifaceContract(recvT types.Type, method string) *Contract {
	if tp, ok := recvT.(*types.TypeParam); ok {
		recvT = tp.Constraint()
	}
	if ct, ok := x.specs.Funcs[fmt.Sprintf("(%s).%s", typeName(recvT), method)]; ok {
		return ct
	}
	if ct, ok := x.specs.Funcs["(*)."+method]; ok {
		return ct
	}
	return nil
}

// pureMethod: result is an uninterpreted function of the receiver and the arguments.
func (x *Exec) pureMethod(st *State, m *types.Func, recv Val, args []Val) Val {
	sig := m.Type().(*types.Signature)
	if sig.Results().Len() != 1 {
		x.abort("pure method %s must have one result", m.Name())
	}
	rt := sig.Results().At(0).Type()
	sorts := x.enc.sortsOf(rt)
	if len(sorts) != 1 {
		x.abort("pure method %s with composite result", m.Name())
	}
	ts := []Term{recv.T}
	for _, a := range args {
		if a.K == VSlice {
			// the result depends on the contents of the slice: no function of the header; a fresh value
			fv, inv := x.enc.freshVal(rt, "pure."+m.Name())
			st.assumeAll(inv)
			fv.Typ = rt
			return fv
		}
		ts = append(ts, flatten(a)...)
	}
	t := x.enc.UF("pure."+m.Name(), sorts[0], ts...)
	v := Val{K: VTerm, T: t, Typ: rt}
	if x.enc.declared["rng:"+t.S] == false {
		x.enc.declared["rng:"+t.S] = true
		st.assumeAll(x.enc.typeInv(rt, v))
	}
	return v
}

// pureFuncResult: a module function whose contract carries the flag `pure` (and whose body passed
// the purity check, see checkPureBody) is a mathematical function of its scalar arguments: the
// code-side call yields the same application term the specification side uses.
func (x *Exec) pureFuncResult(st *State, fn *ssa.Function, ct *Contract, args []Val, rts []types.Type) (Val, bool) {
	if fn == nil || !ct.Flags["pure"] || len(rts) != 1 || fn.Signature.Recv() != nil {
		return Val{}, false
	}
	sorts := x.enc.sortsOf(rts[0])
	if len(sorts) != 1 {
		return Val{}, false
	}
	var ts []Term
	for _, a := range args {
		if a.K != VTerm {
			return Val{}, false
		}
		ts = append(ts, a.T)
	}
	o := fn
	if fn.Origin() != nil {
		o = fn.Origin()
	}
	tf, ok := o.Object().(*types.Func)
	if !ok {
		return Val{}, false
	}
	v := Val{K: VTerm, T: x.enc.UF("fn."+tf.FullName(), sorts[0], ts...), Typ: rts[0]}
	st.assumeAll(x.enc.typeInv(rts[0], v))
	return v, true
}

// checkPureBody: the syntactic purity check behind the flag `pure` on a module function: no
// stores, no map updates, no loads from the heap, calls only to functions and methods that are
// themselves pure (contract flag or assumed pure observers) or to side-effect-free stubs.
func (x *Exec) checkPureBody(fn *ssa.Function) string {
	for _, b := range fn.Blocks {
		for _, in := range b.Instrs {
			switch t := in.(type) {
			case *ssa.Store, *ssa.MapUpdate, *ssa.Go, *ssa.Defer, *ssa.Send, *ssa.Select, *ssa.MakeClosure, *ssa.MakeMap, *ssa.MakeSlice, *ssa.Alloc, *ssa.Lookup, *ssa.Range:
				return fmt.Sprintf("%T", in)
			case *ssa.UnOp:
				if t.Op == token.MUL || t.Op == token.ARROW {
					return "load " + t.X.Name()
				}
			case *ssa.Call:
				c := t.Common()
				if c.IsInvoke() {
					if ct := x.ifaceContract(c.Value.Type(), c.Method.Name()); ct == nil || !ct.Flags["pure"] {
						return "invoke " + c.Method.Name()
					}
					continue
				}
				switch v := c.Value.(type) {
				case *ssa.Builtin:
					if v.Name() != "len" && v.Name() != "cap" && v.Name() != "min" && v.Name() != "max" {
						return "builtin " + v.Name()
					}
				case *ssa.Function:
					o := v
					if v.Origin() != nil {
						o = v.Origin()
					}
					if ct, ok := x.specs.Funcs[fullKey(o)]; ok && ct.Flags["pure"] {
						continue
					}
					if pureStdFuncs[o.String()] {
						continue
					}
					return "call " + o.String()
				default:
					return "dynamic call"
				}
			}
		}
	}
	return ""
}

var pureStdFuncs = map[string]bool{"strings.HasPrefix": true, "strings.HasSuffix": true, "strings.IndexByte": true, "strings.Contains": true, "strings.EqualFold": true}

// pureApply is the specification-side application of a function or method.
func (x *Exec) pureApply(st *State, fn *types.Func, recv *Val, args []Val) Val {
	sig := fn.Type().(*types.Signature)
	if recv != nil {
		// known implementation with a simple body? (field getters of module types)
		if v, ok := x.getterApply(st, fn, *recv); ok {
			return v
		}
		if recv.T.Sort == SIface || true {
			return x.pureMethodSpec(fn, *recv, args)
		}
	}
	// package-level function: a few are interpreted
	name := fn.FullName()
	switch name {
	case "github.com/avfs/avfs.CurrentOSType":
		return x.globalVal(st, "avfs", "currentOSType", sig.Results().At(0).Type())
	case "github.com/avfs/avfs.BuildFeatures":
		o := fn.Pkg().Scope().Lookup("buildFeatSetOSType").(*types.Const)
		v := x.constToVal(o.Val(), sig.Results().At(0).Type())
		return v
	}
	rt := sig.Results().At(0).Type()
	sorts := x.enc.sortsOf(rt)
	var ts []Term
	for _, a := range args {
		ts = append(ts, flatten(a)...)
	}
	if len(sorts) != 1 {
		specFail("spec call of %s with composite result", name)
	}
	return Val{K: VTerm, T: x.enc.UF("fn."+name, sorts[0], ts...), Typ: rt}
}

func (x *Exec) pureMethodSpec(fn *types.Func, recv Val, args []Val) Val {
	sig := fn.Type().(*types.Signature)
	rt := sig.Results().At(0).Type()
	sorts := x.enc.sortsOf(rt)
	if len(sorts) != 1 {
		specFail("pure method %s with composite result", fn.Name())
	}
	ts := []Term{recv.T}
	for _, a := range args {
		ts = append(ts, flatten(a)...)
	}
	return Val{K: VTerm, T: x.enc.UF("pure."+fn.Name(), sorts[0], ts...), Typ: rt}
}

// getterApply: for a method of a module pointer type whose body is "return recv.field", read the field.
func (x *Exec) getterApply(st *State, fn *types.Func, recv Val) (Val, bool) {
	if recv.T.Sort != SRef || recv.Typ == nil {
		return Val{}, false
	}
	sel := x.prog.SSA.MethodSets.MethodSet(recv.Typ).Lookup(fn.Pkg(), fn.Name())
	if sel == nil {
		return Val{}, false
	}
	sf := x.prog.SSA.MethodValue(sel)
	if sf == nil || len(sf.Blocks) != 1 {
		return Val{}, false
	}
	// pattern: FieldAddr; UnOp *; Return
	var fa *ssa.FieldAddr
	for _, in := range sf.Blocks[0].Instrs {
		switch t := in.(type) {
		case *ssa.FieldAddr:
			if fa != nil || t.X != ssa.Value(sf.Params[0]) {
				return Val{}, false
			}
			fa = t
		case *ssa.UnOp:
			if fa == nil || t.X != ssa.Value(fa) {
				return Val{}, false
			}
		case *ssa.Return:
			if fa == nil || len(t.Results) != 1 {
				return Val{}, false
			}
			u, ok := t.Results[0].(*ssa.UnOp)
			if !ok || u.X != ssa.Value(fa) {
				return Val{}, false
			}
			pt := types.Unalias(fa.X.Type()).Underlying().(*types.Pointer)
			f := types.Unalias(pt.Elem()).Underlying().(*types.Struct).Field(fa.Field)
			v := st.loadField(pt.Elem(), f, recv.T)
			v.Typ = f.Type()
			return v, true
		case *ssa.DebugRef:
		default:
			return Val{}, false
		}
	}
	return Val{}, false
}

// ---------------------------------------------------------------------------
// Contracts at call sites

func (x *Exec) specEnv(fr *Frame, st *State, oldHeap map[string]Term) *SpecEnv {
	env := &SpecEnv{x: x, st: st.view(), vars: map[string]Val{}, events: st.events}
	if fr != nil {
		env.pkg = fnPkg(fr.fn)
		if fr.contract != nil {
			env.lets = fr.contract.Lets
		}
		for _, p := range fr.fn.Params {
			if v, ok := st.regs[p]; ok {
				v.Typ = p.Type()
				env.vars[p.Name()] = v
			}
		}
		for _, fv := range fr.fn.FreeVars {
			if v, ok := st.regs[fv]; ok {
				env.vars[fv.Name()] = v
			}
		}
	}
	oh := oldHeap
	if oh == nil {
		oh = map[string]Term{}
	}
	// old(): parameters keep their entry values (loop invariants rebind reassigned parameters in env.vars only)
	ov := make(map[string]Val, len(env.vars))
	for k2, v := range env.vars {
		ov[k2] = v
	}
	o := &SpecEnv{x: x, st: st.viewWithHeap(oh), vars: ov, pkg: env.pkg, lets: env.lets, events: st.events}
	env.old = o
	return env
}

func (x *Exec) pkgOfContract(ct *Contract, fn *ssa.Function, recvT types.Type) *types.Package {
	if fn != nil {
		if fn.Pkg != nil {
			return fn.Pkg.Pkg
		}
		if fn.Origin() != nil && fn.Origin().Pkg != nil {
			return fn.Origin().Pkg.Pkg
		}
	}
	if ct.Pkg != "" {
		if pp, ok := x.prog.PPkgs[ct.Pkg]; ok {
			return pp.Types
		}
	}
	if pp, ok := x.prog.PPkgs["avfs"]; ok {
		return pp.Types
	}
	return nil
}

func resultNames(sig *types.Signature, ct *Contract) []string {
	var out []string
	for i := 0; i < sig.Results().Len(); i++ {
		n := sig.Results().At(i).Name()
		if ct != nil && i < len(ct.Result) {
			n = ct.Result[i]
		}
		if n == "" || n == "_" {
			n = fmt.Sprintf("r%d", i)
		}
		out = append(out, n)
	}
	return out
}

func bindResults(env *SpecEnv, sig *types.Signature, ct *Contract, res []Val) {
	names := resultNames(sig, ct)
	for i, n := range names {
		if i < len(res) {
			v := res[i]
			v.Typ = sig.Results().At(i).Type()
			env.vars[n] = v
			env.vars[fmt.Sprintf("r%d", i)] = v
		}
	}
	if ei := errIndex(resultTypes(sig)); ei >= 0 && ei < len(res) {
		if _, ok := env.vars["err"]; !ok {
			env.vars["err"] = res[ei]
		}
	}
	if len(res) > 0 {
		if _, ok := env.vars["res"]; !ok {
			env.vars["res"] = res[0]
		}
	}
}

// callByContract: assert requires, havoc modifies, assume ensures.
func (x *Exec) callByContract(fr *Frame, st *State, in ssa.Instruction, fn *ssa.Function, ct *Contract, recv *Val, args []Val, site string, k Cont) {
	var sig *types.Signature
	var pnames []string
	var ptypes []types.Type
	if fn != nil {
		sig = fn.Signature
		for _, p := range fn.Params {
			pnames = append(pnames, p.Name())
			ptypes = append(ptypes, p.Type())
		}
	} else {
		// interface method: receiver is "self", parameters by name or a0..an
		c := in.(ssa.CallInstruction).Common()
		sig = c.Method.Type().(*types.Signature)
		for i := 0; i < sig.Params().Len(); i++ {
			n := sig.Params().At(i).Name()
			if n == "" || n == "_" {
				n = fmt.Sprintf("a%d", i)
			}
			pnames = append(pnames, n)
			ptypes = append(ptypes, sig.Params().At(i).Type())
		}
	}
	rts := resultTypes(sig)
	env := &SpecEnv{x: x, st: st.view(), vars: map[string]Val{}, lets: ct.Lets, pkg: x.pkgOfContract(ct, fn, nil)}
	if recv != nil {
		env.vars["self"] = *recv
	}
	for i, n := range pnames {
		if i < len(args) {
			v := args[i]
			v.Typ = ptypes[i]
			env.vars[n] = v
			env.vars[fmt.Sprintf("a%d", i)] = v
		}
	}
	env.old = &SpecEnv{x: x, st: env.st, vars: env.vars, pkg: env.pkg, lets: env.lets}
	fnForObl := fr.fn
	for _, cl := range ct.Requires {
		t, err := env.EvalBool(cl.Node)
		if err != nil {
			x.abort("requires of %s: %v", ct.Key, err)
		}
		o := x.newObl(fnForObl, "pre@"+ct.Key, cl.Label()+" @ "+x.oblLabels[in], unionProps(cl.Props, []string{"C07"}), x.posStr(in.Pos()))
		st.check(o, t)
	}
	{
		callee0 := ct.Key
		if i := strings.LastIndex(callee0, "."); i >= 0 {
			callee0 = callee0[i+1:]
		}
		evRecv0, evArgs0 := recv, args
		if fn != nil && fn.Signature.Recv() != nil && len(args) > 0 {
			r0 := args[0]
			evRecv0, evArgs0 = &r0, args[1:]
		}
		x.atCallAsserts(fr, st, in, site, callee0, evRecv0, evArgs0)
	}
	havockedBefore := st.havocked
	snapshot := make(map[string]Term, len(st.heap))
	for k2, v := range st.heap {
		snapshot[k2] = v
	}
	if ct.IsIface {
		for _, a := range args {
			st.publish(a)
		}
	}
	if !ct.HasMod && !ct.Flags["pure"] {
		x.havocOpenWorld(st)
	} else {
		if !ct.Flags["pure"] && (len(ct.Modifies) > 0 || ct.HasMod) {
			st.growAlloc() // the callee may allocate
		}
		x.havocModifies(st, env, ct)
	}
	var res []Val
	if ct.Flags["pure"] && fn == nil && len(rts) == 1 {
		c := in.(ssa.CallInstruction).Common()
		res = []Val{x.pureMethod(st, c.Method, *recv, args)}
	} else if v, ok := x.pureFuncResult(st, fn, ct, args, rts); ok {
		res = []Val{v}
	} else {
		for i, rt := range rts {
			v, inv := x.enc.freshVal(rt, fmt.Sprintf("ret.%s.%d", ct.Key, i))
			v.Typ = rt
			st.assumeAll(inv)
			st.assumeLoaded(rt, v)
			res = append(res, v)
		}
	}
	post := &SpecEnv{x: x, st: st.view(), vars: map[string]Val{}, lets: ct.Lets, pkg: env.pkg}
	for k2, v := range env.vars {
		post.vars[k2] = v
	}
	bindResults(post, sig, ct, res)
	post.old = &SpecEnv{x: x, st: st.viewWithHeap(snapshot), vars: post.vars, pkg: env.pkg, lets: ct.Lets}
	post.old.st.havocked = havockedBefore
	for _, cl := range ct.Ensures {
		if traceRe.MatchString(cl.Text) {
			continue // clauses about the callee's own call trace say nothing about the caller's state
		}
		t, err := post.EvalAssume(cl.Node)
		if err != nil {
			x.abort("ensures of %s at call: %v", ct.Key, err)
		}
		st.assume(t)
	}
	if ct.IsIface || ct.Flags["trusted"] {
		x.enc.trusted["assumed contract: "+ct.Key] = true
	}
	if ct.Flags["event"] || ct.IsIface {
		x.eventSeq++
		callee := ct.Key
		if i := strings.LastIndex(callee, "."); i >= 0 {
			callee = callee[i+1:]
		}
		evRecv := recv
		evArgs := args
		if fn != nil && fn.Signature.Recv() != nil && len(args) > 0 {
			r0 := args[0]
			evRecv = &r0
			evArgs = args[1:]
		}
		st.events = append(st.events, Event{Site: site, Callee: callee, Full: ct.Key, Recv: evRecv, Args: evArgs, Results: res, ErrIdx: errIndex(rts), Seq: x.eventSeq})
	}
	k(st, res)
}

func unionProps(a, b []string) []string {
	seen := map[string]bool{}
	var out []string
	for _, p := range append(append([]string{}, a...), b...) {
		if !seen[p] {
			seen[p] = true
			out = append(out, p)
		}
	}
	return out
}

// havocModifies forgets the locations named by a modifies clause:
//   x.f        one field of one object        T.f   field f of every object of struct type T
//   s[*]       the elements of slice s        *     everything
func (x *Exec) havocModifies(st *State, env *SpecEnv, ct *Contract) {
	for _, m := range ct.Modifies {
		x.havocLoc(st, env, m)
	}
}

func (x *Exec) havocLoc(st *State, env *SpecEnv, m string) {
	m = strings.TrimSpace(m)
	if m == "*" {
		st.havocAll(nil)
		return
	}
	if strings.HasSuffix(m, "[*]") {
		n, err := ParseSpec(strings.TrimSuffix(m, "[*]"))
		if err != nil {
			x.abort("modifies %s: %v", m, err)
		}
		v, err := env.EvalVal(n)
		if err != nil {
			x.abort("modifies %s: %v", m, err)
		}
		switch u := types.Unalias(v.Typ).Underlying().(type) {
		case *types.Slice:
			names, as := st.elemArrs(u.Elem())
			for k := range names {
				arr := st.hget(names[k], as[k])
				// a nil slice has no elements to modify
				st.hset(names[k], Ite(Eq(v.Parts[0].T, TNull), arr, Store(arr, v.Parts[0].T, x.enc.Fresh("havoc.elems", elemSort(as[k])))))
			}
		case *types.Map:
			// a nil map has no contents to modify
			isNil := Eq(v.T, TNull)
			dom, domS, vals, valS, ln := st.mapArrs(u)
			d := st.hget(dom, domS)
			st.hset(dom, Ite(isNil, d, Store(d, v.T, x.enc.Fresh("havoc.dom", elemSort(domS)))))
			for k := range vals {
				a := st.hget(vals[k], valS[k])
				st.hset(vals[k], Ite(isNil, a, Store(a, v.T, x.enc.Fresh("havoc.vals", elemSort(valS[k])))))
			}
			l := st.hget(ln, SArr(SRef, SInt))
			st.hset(ln, Ite(isNil, l, Store(l, v.T, x.enc.Fresh("havoc.len", SInt))))
		default:
			x.abort("modifies %s: not a slice or map", m)
		}
		return
	}
	i := strings.LastIndex(m, ".")
	if i < 0 {
		x.abort("modifies %s: expected x.f, T.f, s[*] or *", m)
	}
	lhs, fname := m[:i], m[i+1:]
	// T.f ?
	if env.pkg != nil {
		if _, isVar := env.vars[lhs]; !isVar {
			if tn, ok := env.pkg.Scope().Lookup(lhs).(*types.TypeName); ok {
				base := "F." + typeName(tn.Type()) + "." + fname
				for name := range x.heapSorts {
					if name == base || strings.HasPrefix(name, base+".") {
						st.hhavoc(name)
					}
				}
				// make sure the array exists even if not touched yet
				if stt, ok := tn.Type().Underlying().(*types.Struct); ok {
					for j := 0; j < stt.NumFields(); j++ {
						if stt.Field(j).Name() == fname && !isStructType(stt.Field(j).Type()) {
							for kk, s := range x.enc.sortsOf(stt.Field(j).Type()) {
								nm := compName(base, kk)
								st.hget(nm, SArr(SRef, s))
								st.hhavoc(nm)
							}
						}
					}
				}
				return
			}
		}
	}
	n, err := ParseSpec(lhs)
	if err != nil {
		x.abort("modifies %s: %v", m, err)
	}
	ov, err := env.EvalVal(n)
	if err != nil {
		x.abort("modifies %s: %v", m, err)
	}
	pt, ok := types.Unalias(ov.Typ).Underlying().(*types.Pointer)
	if !ok {
		x.abort("modifies %s: owner is not a pointer", m)
	}
	x.havocField(st, pt.Elem(), ov.T, fname)
}

func (x *Exec) havocField(st *State, structT types.Type, ref Term, fname string) {
	obj, index, _ := types.LookupFieldOrMethod(types.NewPointer(structT), true, nil, fname)
	if obj == nil {
		for _, pp := range x.prog.Pkgs {
			if obj, index, _ = types.LookupFieldOrMethod(types.NewPointer(structT), true, pp.Types, fname); obj != nil {
				break
			}
		}
	}
	if obj == nil {
		x.abort("modifies: no field %s in %s", fname, structT)
	}
	cur := structT
	r := ref
	for j, fi := range index {
		sstruct := types.Unalias(cur).Underlying().(*types.Struct)
		f := sstruct.Field(fi)
		if j == len(index)-1 {
			if isStructType(f.Type()) && !isMutexType(f.Type()) {
				sub := st.subRef(cur, f, r)
				ss := types.Unalias(f.Type()).Underlying().(*types.Struct)
				for q := 0; q < ss.NumFields(); q++ {
					x.havocField(st, f.Type(), sub, ss.Field(q).Name())
				}
				return
			}
			base := fieldArrName(cur, f)
			for kk, s := range x.enc.sortsOf(f.Type()) {
				nm := compName(base, kk)
				arr := st.hget(nm, SArr(SRef, s))
				st.hset(nm, Store(arr, r, x.enc.Fresh("havoc."+f.Name(), s)))
			}
			return
		}
		r = st.subRef(cur, f, r)
		cur = f.Type()
	}
}

// ---------------------------------------------------------------------------
// Builtins

func (x *Exec) builtin(fr *Frame, st *State, in ssa.Instruction, b *ssa.Builtin, c *ssa.CallCommon, args []Val) []Val {
	enc := x.enc
	switch b.Name() {
	case "len":
		v := args[0]
		switch u := types.Unalias(c.Args[0].Type()).Underlying().(type) {
		case *types.Slice:
			return []Val{{K: VTerm, T: x.fromInt(v.Parts[2].T), Typ: types.Typ[types.Int]}}
		case *types.Basic:
			return []Val{{K: VTerm, T: x.fromInt(app(SInt, "slen", x.strTerm(st, v))), Typ: types.Typ[types.Int]}}
		case *types.Map:
			x.mapAccessCheck(fr, st, in, v, false)
			st.mapFacts(u, v.T)
			return []Val{{K: VTerm, T: x.fromInt(st.mapLen(u, v.T)), Typ: types.Typ[types.Int]}}
		case *types.Array:
			return []Val{{K: VTerm, T: enc.IntConst(newBig(u.Len()), types.Typ[types.Int]), Typ: types.Typ[types.Int]}}
		case *types.Pointer:
			if at, ok := types.Unalias(u.Elem()).Underlying().(*types.Array); ok {
				return []Val{{K: VTerm, T: enc.IntConst(newBig(at.Len()), types.Typ[types.Int]), Typ: types.Typ[types.Int]}}
			}
		}
		x.abort("len of %s", c.Args[0].Type())
	case "cap":
		v := args[0]
		if v.K == VSlice {
			return []Val{{K: VTerm, T: x.fromInt(v.Parts[3].T), Typ: types.Typ[types.Int]}}
		}
		x.abort("cap of %s", c.Args[0].Type())
	case "append":
		return []Val{x.builtinAppend(fr, st, in, c, args)}
	case "copy":
		return []Val{x.builtinCopy(fr, st, in, c, args)}
	case "delete":
		mt := types.Unalias(c.Args[0].Type()).Underlying().(*types.Map)
		x.ledgerUpdate(fr, st, in, mt, args[0], args[1], nil)
		st.mapDelete(mt, args[0].T, args[1].T)
		return nil
	case "panic":
		x.safety(fr, st, in, "panic", TFalse)
		x.abort("panic builtin")
	case "min", "max":
		op := token.LEQ
		if b.Name() == "max" {
			op = token.GEQ
		}
		r := args[0]
		for _, a := range args[1:] {
			r = Val{K: VTerm, T: Ite(enc.IntCmp(op, r.T, a.T, c.Args[0].Type()), r.T, a.T), Typ: r.Typ}
		}
		return []Val{r}
	case "ssa:wrapnilchk":
		return []Val{args[0]}
	case "print", "println":
		return nil
	case "clear":
		x.abort("clear builtin")
	}
	x.abort("builtin %s", b.Name())
	return nil
}

func (x *Exec) fromInt(t Term) Term {
	if x.enc.BV {
		x.enc.trusted["int2bv on a length (BV mode)"] = true
		return app(SBV(64), "(_ int2bv 64)", t)
	}
	return t
}

// append: old contents followed by the new ones; the base is nondeterministically the old
// one (capacity permitting) or a fresh one.
func (x *Exec) builtinAppend(fr *Frame, st *State, in ssa.Instruction, c *ssa.CallCommon, args []Val) Val {
	stp := types.Unalias(c.Args[0].Type()).Underlying().(*types.Slice)
	dst := args[0]
	var addLen Term
	var srcElem func(i Term) []Term
	names, as := st.elemArrs(stp.Elem())
	switch u := types.Unalias(c.Args[1].Type()).Underlying().(type) {
	case *types.Slice:
		src := args[1]
		addLen = src.Parts[2].T
		var srcArrs []Term
		for k := range names {
			srcArrs = append(srcArrs, Select(st.hget(names[k], as[k]), src.Parts[0].T))
		}
		srcElem = func(i Term) []Term {
			var out []Term
			for k := range names {
				out = append(out, Select(srcArrs[k], app(SInt, "+", src.Parts[1].T, i)))
			}
			return out
		}
	case *types.Basic: // append([]byte, string...)
		s := x.strTerm(st, args[1])
		addLen = app(SInt, "slen", s)
		srcElem = func(i Term) []Term { return []Term{app(SInt, "sat", s, i)} }
		_ = u
	default:
		x.abort("append of %s", c.Args[1].Type())
	}
	oldLen := dst.Parts[2].T
	newLen := app(SInt, "+", oldLen, addLen)
	nb := x.enc.Fresh("append.base", SRef)
	noff := x.enc.Fresh("append.off", SInt)
	ncap := x.enc.Fresh("append.cap", SInt)
	alloc := st.hget("alloc", SArr(SRef, SBool))
	inPlace := And(Eq(nb, dst.Parts[0].T), Eq(noff, dst.Parts[1].T), Eq(ncap, dst.Parts[3].T), app(SBool, "<=", newLen, dst.Parts[3].T), Not(Eq(dst.Parts[0].T, TNull)))
	freshB := And(Not(Eq(nb, TNull)), Not(Select(alloc, nb)), Eq(noff, IntLit(0)), app(SBool, ">=", ncap, newLen), Eq(app(SInt, "subkind", nb), IntLit(0)), Eq(app(SRef, "rootof", nb), nb))
	st.assume(Or(inPlace, freshB))
	st.assume(app(SBool, ">=", ncap, newLen))
	st.assume(app(SBool, ">=", noff, IntLit(0)))
	st.hset("alloc", Store(alloc, nb, TTrue))
	// new element arrays at nb: prefix = old contents, then the appended ones; rest unconstrained
	for k := range names {
		arr := st.hget(names[k], as[k])
		es := elemSort(as[k])
		na := x.enc.Fresh("append.elems", es)
		oldA := Select(arr, dst.Parts[0].T)
		// facts in absolute indices of the new base, single trigger (select na k)
		kv := Term{"k!a", SInt}
		lo1 := noff
		hi1 := app(SInt, "+", noff, oldLen)
		st.assume(Term{fmt.Sprintf("(forall ((k!a Int)) (! (=> (and (<= %s k!a) (< k!a %s)) (= (select %s k!a) (select %s (+ %s (- k!a %s))))) :pattern ((select %s k!a))))",
			lo1.S, hi1.S, na.S, oldA.S, dst.Parts[1].T.S, noff.S, na.S), SBool})
		se := srcElem(app(SInt, "-", kv, hi1))[k]
		hi2 := app(SInt, "+", hi1, addLen)
		st.assume(Term{fmt.Sprintf("(forall ((k!a Int)) (! (=> (and (<= %s k!a) (< k!a %s)) (= (select %s k!a) %s)) :pattern ((select %s k!a))))",
			hi1.S, hi2.S, na.S, se.S, na.S), SBool})
		st.hset(names[k], Store(arr, nb, na))
	}
	st.publish(args[1])
	return Val{K: VSlice, Parts: []Val{TV(nb), TV(noff), TV(newLen), TV(ncap)}, Typ: c.Args[0].Type()}
}

func (x *Exec) builtinCopy(fr *Frame, st *State, in ssa.Instruction, c *ssa.CallCommon, args []Val) Val {
	stp := types.Unalias(c.Args[0].Type()).Underlying().(*types.Slice)
	dst := args[0]
	names, as := st.elemArrs(stp.Elem())
	var srcLen Term
	var srcElem func(i Term) []Term
	switch types.Unalias(c.Args[1].Type()).Underlying().(type) {
	case *types.Slice:
		src := args[1]
		srcLen = src.Parts[2].T
		var srcArrs []Term
		for k := range names {
			srcArrs = append(srcArrs, Select(st.hget(names[k], as[k]), src.Parts[0].T))
		}
		srcElem = func(i Term) []Term {
			var out []Term
			for k := range names {
				out = append(out, Select(srcArrs[k], app(SInt, "+", src.Parts[1].T, i)))
			}
			return out
		}
	case *types.Basic:
		s := x.strTerm(st, args[1])
		srcLen = app(SInt, "slen", s)
		srcElem = func(i Term) []Term { return []Term{app(SInt, "sat", s, i)} }
	default:
		x.abort("copy from %s", c.Args[1].Type())
	}
	n := Ite(app(SBool, "<=", dst.Parts[2].T, srcLen), dst.Parts[2].T, srcLen)
	nn := x.enc.Fresh("copy.n", SInt)
	st.assume(Eq(nn, n))
	for k := range names {
		arr := st.hget(names[k], as[k])
		es := elemSort(as[k])
		na := x.enc.Fresh("copy.elems", es)
		oldA := Select(arr, dst.Parts[0].T)
		iv := "i!c"
		se := srcElem(app(SInt, "-", Term{iv, SInt}, dst.Parts[1].T))[k]
		st.assume(Term{fmt.Sprintf("(forall ((%s Int)) (! (= (select %s %s) (ite (and (<= %s %s) (< %s (+ %s %s))) %s (select %s %s))) :pattern ((select %s %s))))",
			iv, na.S, iv, dst.Parts[1].T.S, iv, iv, dst.Parts[1].T.S, nn.S, se.S, oldA.S, iv, na.S, iv), SBool})
		st.hset(names[k], Store(arr, dst.Parts[0].T, na))
	}
	return Val{K: VTerm, T: x.fromInt(nn), Typ: types.Typ[types.Int]}
}

// ---------------------------------------------------------------------------
// Ghost lock state

func (x *Exec) lockArr(st *State, structT types.Type, field string, ref Term) (string, Term) {
	return typeName(structT) + "." + field, ref
}

func (x *Exec) lockOp(fr *Frame, st *State, in ssa.Instruction, op string, mu Val) {
	if mu.K != VFieldPtr {
		x.abort("lock operation on %s", mu)
	}
	arr := typeName(mu.ST) + "." + mu.FV.Name()
	wn, rn := "L."+arr+".w", "L."+arr+".r"
	w := st.hget(wn, SArr(SRef, SBool))
	r := st.hget(rn, SArr(SRef, SInt))
	ref := mu.T
	desc := x.oblLabels[in]
	switch op {
	case "Lock":
		o := x.newObl(fr.fn, "relock", desc, []string{"C07"}, x.posStr(in.Pos()))
		st.check(o, And(Not(Select(w, ref)), Eq(Select(r, ref), IntLit(0))))
		st.hset(wn, Store(w, ref, TTrue))
		st.locks = append(st.locks, lockRef{arr: arr, owner: ref, desc: desc})
		x.onAcquire(fr, st, mu, true)
	case "RLock":
		o := x.newObl(fr.fn, "relock", desc, []string{"C07"}, x.posStr(in.Pos()))
		// a read lock taken while this call holds the write lock deadlocks; nested read locks can deadlock with a waiting writer
		st.check(o, And(Not(Select(w, ref)), Eq(Select(r, ref), IntLit(0))))
		st.hset(rn, Store(r, ref, app(SInt, "+", Select(r, ref), IntLit(1))))
		st.locks = append(st.locks, lockRef{arr: arr, owner: ref, desc: desc})
		x.onAcquire(fr, st, mu, false)
	case "Unlock":
		o := x.newObl(fr.fn, "unlock", desc, []string{"C07"}, x.posStr(in.Pos()))
		st.check(o, Select(w, ref))
		st.hset(wn, Store(w, ref, TFalse))
	case "RUnlock":
		o := x.newObl(fr.fn, "unlock", desc, []string{"C07"}, x.posStr(in.Pos()))
		st.check(o, app(SBool, ">", Select(r, ref), IntLit(0)))
		st.hset(rn, Store(r, ref, app(SInt, "-", Select(r, ref), IntLit(1))))
	case "TryLock", "TryRLock", "RLocker":
		x.abort("lock operation %s", op)
	default:
		x.abort("lock operation %s", op)
	}
}

// locksBalanced: at exit of the function under contract nothing this call acquired is still held.
func (x *Exec) locksBalanced(fr *Frame, st *State) {
	seen := map[string]bool{}
	for _, l := range st.locks {
		key := l.arr + "|" + l.owner.S
		if seen[key] {
			continue
		}
		seen[key] = true
		w := st.hget("L."+l.arr+".w", SArr(SRef, SBool))
		r := st.hget("L."+l.arr+".r", SArr(SRef, SInt))
		w0 := st.initHeap("L."+l.arr+".w", SArr(SRef, SBool))
		r0 := st.initHeap("L."+l.arr+".r", SArr(SRef, SInt))
		o := x.newObl(fr.fn, "lock-balance", l.desc, []string{"C07"}, "")
		st.check(o, And(Eq(Select(w, l.owner), Select(w0, l.owner)), Eq(Select(r, l.owner), Select(r0, l.owner))))
	}
}

// onAcquire, raceCheck, ledgerUpdate: thread-modular mode and ghost ledgers (see tmode.go).

func newBig(n int64) *big.Int { return big.NewInt(n) }

// linkImplementers: for a pure interface method, every module type that implements it and whose
// method is under contract contributes  dyntype(recv) == T  ==>  ensures_T[self := payload, r0 := result].
func (x *Exec) linkImplementers(fr *Frame, st *State, recvT types.Type, m *types.Func, recv Val, res Val) {
	it, ok := types.Unalias(recvT).Underlying().(*types.Interface)
	if tp, isTP := recvT.(*types.TypeParam); isTP {
		it, ok = tp.Constraint().Underlying().(*types.Interface)
	}
	if !ok {
		return
	}
	for _, name := range sortedKeys(x.prog.PPkgs) {
		pp := x.prog.PPkgs[name]
		for _, impl := range x.prog.implementers(pp.Types, it) {
			sel := x.prog.SSA.MethodSets.MethodSet(impl).Lookup(m.Pkg(), m.Name())
			if sel == nil {
				continue
			}
			callee := x.prog.SSA.MethodValue(sel)
			if callee == nil || callee.Synthetic != "" {
				continue
			}
			ct, ok := x.specs.Funcs[fullKey(callee)]
			if !ok || len(callee.Params) != 1 {
				continue
			}
			pv := x.ifacePayload(recv.T, impl)
			pv.Typ = impl
			env := &SpecEnv{x: x, st: st.view(), vars: map[string]Val{}, lets: ct.Lets, pkg: fnPkg(callee)}
			env.vars[callee.Params[0].Name()] = pv
			env.old = env
			bindResults(env, callee.Signature, ct, []Val{res})
			for _, cl := range ct.Ensures {
				if traceRe.MatchString(cl.Text) {
					continue
				}
				t, err := env.EvalAssume(cl.Node)
				if err != nil {
					continue
				}
				st.assume(Implies(x.ifaceIs(recv.T, impl), t))
			}
		}
	}
}

// reassumeInvs: after a call that havocs the heap, the type invariants of the unit's pointer
// parameters hold again (callees reach unexported fields only through invariant-preserving methods).
func (x *Exec) reassumeInvs(st *State) {
	if x.topFrame == nil {
		return
	}
	fn := x.topFrame.fn
	pkg := fnPkg(fn)
	for _, p := range fn.Params {
		v, ok := x.entryRegs[p]
		if !ok || v.K != VTerm || v.T.Sort != SRef {
			continue
		}
		tms, _ := x.typeInvTerms(st, v, p.Type(), pkg, true)
		if len(tms) > 0 {
			x.enc.trusted["re-entrancy: callees that havoc the heap preserve the type invariants of the receiver/pointer parameters (unexported fields are only reachable through invariant-preserving methods)"] = true
		}
		st.assumeAll(tms)
	}
}

// havocOpenWorld: a callee about which nothing is known may change the whole heap, except that
// (assumption, listed) it does not write the fields of the unit's own pointer parameters of module
// struct types: those are reachable by foreign code only through the module's methods, and the
// callee is assumed not to call back into mutators of the object being operated on.
func (x *Exec) havocOpenWorld(st *State) {
	type keep struct {
		name string
		ref  Term
		val  Term
	}
	var keeps []keep
	if x.topFrame != nil {
		for _, p := range x.topFrame.fn.Params {
			v, ok := x.entryRegs[p]
			if !ok || v.K != VTerm || v.T.Sort != SRef {
				continue
			}
			pt, ok := types.Unalias(p.Type()).Underlying().(*types.Pointer)
			if !ok || !isStructType(pt.Elem()) {
				continue
			}
			n, ok := types.Unalias(pt.Elem()).(*types.Named)
			if !ok || n.Obj().Pkg() == nil || !strings.HasPrefix(n.Obj().Pkg().Path(), "github.com/avfs/avfs") {
				continue
			}
			sstruct := n.Underlying().(*types.Struct)
			for i := 0; i < sstruct.NumFields(); i++ {
				f := sstruct.Field(i)
				if isMutexType(f.Type()) || isStructType(f.Type()) {
					continue
				}
				base := fieldArrName(pt.Elem(), f)
				for k, s := range x.enc.sortsOf(f.Type()) {
					nm := compName(base, k)
					arr := st.hget(nm, SArr(SRef, s))
					keeps = append(keeps, keep{nm, v.T, Select(arr, v.T)})
				}
			}
		}
	}
	st.havocAll(nil)
	for _, kp := range keeps {
		arr := st.heap[kp.name]
		st.assume(Eq(Select(arr, kp.ref), kp.val))
	}
	if len(keeps) > 0 {
		x.enc.trusted["encapsulation: unknown callees do not modify the fields of the object the verified method operates on (no call-back into its mutators)"] = true
	}
	x.reassumeInvs(st)
}
