package main

// Evaluation of contract expressions to SMT terms in a given (pre/post) state.

import (
	"fmt"
	"go/ast"
	"go/constant"
	"go/token"
	"go/types"
	"math/big"
	"strconv"
	"strings"
)

type SpecEnv struct {
	assume bool    // the clause being evaluated will be assumed (not proved)
	facts  *[]Term // type facts of the heap values read while evaluating (shared by nested environments)
	x      *Exec
	st     *State // heap view used for reads (never receives assumptions)
	old    *SpecEnv
	vars   map[string]Val
	lets   map[string]*SNode
	pkg    *types.Package
	events []Event
	bound  []string
}

type specErr struct{ msg string }

func specFail(format string, args ...any) { panic(specErr{fmt.Sprintf(format, args...)}) }

// view returns a copy of st that shares the heap but discards assumptions.
func (st *State) view() *State {
	n := &State{x: st.x, heap: st.heap, regs: st.regs, cells: st.cells, fresh: st.fresh, events: st.events, havocked: st.havocked}
	n.sink = &[]Term{}
	return n
}

func (st *State) viewWithHeap(h map[string]Term) *State {
	hh := make(map[string]Term, len(h))
	for k, v := range h {
		hh[k] = v
	}
	return &State{x: st.x, heap: hh, regs: st.regs, cells: st.cells, fresh: st.fresh, sink: &[]Term{}}
}

func (env *SpecEnv) child() *SpecEnv {
	n := *env
	n.vars = make(map[string]Val, len(env.vars)+2)
	for k, v := range env.vars {
		n.vars[k] = v
	}
	return &n
}

// EvalBool evaluates a clause to a Bool term; errors are reported as Go errors.
func (env *SpecEnv) EvalBool(n *SNode) (t Term, err error) {
	defer func() {
		if r := recover(); r != nil {
			if se, ok := r.(specErr); ok {
				err = fmt.Errorf("%s", se.msg)
				return
			}
			panic(r)
		}
	}()
	env.resetFacts()
	v := env.eval(n)
	if v.K != VTerm || v.T.Sort != SBool {
		return Term{}, fmt.Errorf("clause is not boolean: %s", n.Text)
	}
	// heap values read by the clause satisfy their type invariants (ranges, slice headers):
	// hypotheses of a goal, additional conjuncts of an assumption
	if env.assume {
		return And(append(env.takeFacts(0), v.T)...), nil
	}
	return Implies(And(env.takeFacts(0)...), v.T), nil
}

// EvalAssume evaluates a clause that is going to be assumed.
func (env *SpecEnv) EvalAssume(n *SNode) (Term, error) {
	env.assume = true
	defer func() { env.assume = false }()
	return env.EvalBool(n)
}

// all views reachable from this environment share one fact list
func (env *SpecEnv) resetFacts() {
	shared := &[]Term{}
	for e := env; e != nil; e = e.old {
		if e.st != nil {
			e.st.sink = shared
		}
		e.facts = shared
		if e.old == e {
			break
		}
	}
}

func (env *SpecEnv) factCount() int {
	if env.facts == nil {
		return 0
	}
	return len(*env.facts)
}

// takeFacts removes and returns the facts collected beyond the first `keep` ones.
func (env *SpecEnv) takeFacts(keep int) []Term {
	if env.facts == nil {
		return nil
	}
	all := *env.facts
	if keep > len(all) {
		keep = len(all)
	}
	rest := append([]Term{}, all[keep:]...)
	*env.facts = all[:keep]
	return rest
}

func (env *SpecEnv) EvalVal(n *SNode) (v Val, err error) {
	defer func() {
		if r := recover(); r != nil {
			if se, ok := r.(specErr); ok {
				err = fmt.Errorf("%s", se.msg)
				return
			}
			panic(r)
		}
	}()
	env.resetFacts()
	return env.eval(n), nil
}

func (env *SpecEnv) eval(n *SNode) Val {
	switch n.Kind {
	case "forall", "exists":
		c := env.child()
		var binders []string
		var guards []Term
		for i, name := range n.Vars {
			typ := c.resolveType(n.Types[i])
			sorts := env.x.enc.sortsOf(typ)
			if len(sorts) != 1 {
				specFail("quantified variable %s of composite type %s", name, typ)
			}
			bn := "q!" + name
			binders = append(binders, fmt.Sprintf("(%s %s)", bn, sorts[0]))
			v := Val{K: VTerm, T: Term{bn, sorts[0]}, Typ: typ}
			c.vars[name] = v
			guards = append(guards, env.x.enc.typeInv(typ, v)...)
		}
		before := env.factCount()
		body := c.eval(n.A)
		if body.T.Sort != SBool {
			specFail("quantifier body is not boolean: %s", n.Text)
		}
		facts := env.takeFacts(before)
		var inner Term
		switch {
		case n.Kind == "forall" && env.assume:
			// hypothesis position: the (valid) type facts of the values read are extra conjuncts
			inner = Implies(And(guards...), And(append(facts, body.T)...))
		case n.Kind == "forall":
			inner = Implies(And(append(guards, facts...)...), body.T)
		case env.assume:
			inner = And(append(append(guards, facts...), body.T)...)
		default:
			// goal position of an existential: facts are valid, they may not strengthen the goal
			inner = And(append(guards, Implies(And(facts...), body.T))...)
		}
		return TV(Term{fmt.Sprintf("(%s (%s) %s)", n.Kind, strings.Join(binders, " "), inner.S), SBool})
	case "imp":
		env.assume = !env.assume // the antecedent is in the opposite polarity
		a := env.evalB(n.A)
		env.assume = !env.assume
		if a.S == "false" {
			return TV(TTrue) // lazy: the consequent may be undefined (e.g. result() of a call that did not happen)
		}
		return TV(Implies(a, env.evalB(n.B)))
	case "iff":
		return TV(Eq(env.evalB(n.A), env.evalB(n.B)))
	case "cond":
		c := env.evalB(n.C)
		a, b := env.eval(n.A), env.eval(n.B)
		a, b = env.coerce(a, b)
		r := env.iteVal(c, a, b)
		if isUntypedConst(a) && isUntypedConst(b) {
			r.Typ = a.Typ
			r.Retype = func(t types.Type) Val {
				ta, tb := env.convert(a, t), env.convert(b, t)
				rr := env.iteVal(c, ta, tb)
				rr.Typ = t
				return rr
			}
		}
		return r
	case "go":
		return env.evalGo(n, n.Go)
	}
	specFail("bad node kind %s", n.Kind)
	return Val{}
}

func (env *SpecEnv) iteVal(c Term, a, b Val) Val {
	if a.K == VTerm && b.K == VTerm {
		return Val{K: VTerm, T: Ite(c, a.T, b.T), Typ: a.Typ}
	}
	if a.K == b.K && len(a.Parts) == len(b.Parts) {
		r := Val{K: a.K, Typ: a.Typ}
		for i := range a.Parts {
			r.Parts = append(r.Parts, env.iteVal(c, a.Parts[i], b.Parts[i]))
		}
		return r
	}
	specFail("cannot merge values of different shapes")
	return Val{}
}

func (env *SpecEnv) evalB(n *SNode) Term {
	v := env.eval(n)
	if v.K != VTerm || v.T.Sort != SBool {
		specFail("expected boolean: %s", n.Text)
	}
	return v.T
}

func (env *SpecEnv) resolveType(s string) types.Type {
	s = strings.TrimSpace(s)
	if strings.HasPrefix(s, "*") {
		return types.NewPointer(env.resolveType(s[1:]))
	}
	if strings.HasPrefix(s, "[]") {
		return types.NewSlice(env.resolveType(s[2:]))
	}
	if i := strings.Index(s, "."); i >= 0 {
		pk := env.findPkg(s[:i])
		if pk == nil {
			specFail("unknown package %s", s[:i])
		}
		o := pk.Scope().Lookup(s[i+1:])
		if o == nil {
			specFail("unknown type %s", s)
		}
		return o.Type()
	}
	if o := types.Universe.Lookup(s); o != nil {
		if tn, ok := o.(*types.TypeName); ok {
			return tn.Type()
		}
	}
	if env.pkg != nil {
		if o := env.pkg.Scope().Lookup(s); o != nil {
			return o.Type()
		}
	}
	specFail("unknown type %s", s)
	return nil
}

func (env *SpecEnv) findPkg(name string) *types.Package {
	if env.pkg != nil {
		if env.pkg.Name() == name {
			return env.pkg
		}
		for _, im := range env.pkg.Imports() {
			if im.Name() == name {
				return im
			}
		}
	}
	// any loaded package by that name
	for _, pp := range env.x.prog.Pkgs {
		if pp.Types != nil && pp.Types.Name() == name {
			return pp.Types
		}
		for _, im := range pp.Types.Imports() {
			if im.Name() == name {
				return im
			}
		}
	}
	return nil
}

func typeExprString(e ast.Expr) string {
	switch t := e.(type) {
	case *ast.Ident:
		return t.Name
	case *ast.StarExpr:
		return "*" + typeExprString(t.X)
	case *ast.SelectorExpr:
		return typeExprString(t.X) + "." + t.Sel.Name
	case *ast.ParenExpr:
		return typeExprString(t.X)
	case *ast.UnaryExpr:
		if t.Op == token.MUL {
			return "*" + typeExprString(t.X)
		}
	case *ast.ArrayType:
		if t.Len == nil {
			return "[]" + typeExprString(t.Elt)
		}
	}
	specFail("not a type expression")
	return ""
}

func siteString(e ast.Expr) string {
	switch t := e.(type) {
	case *ast.Ident:
		return t.Name
	case *ast.SelectorExpr:
		return siteString(t.X) + "." + t.Sel.Name
	case *ast.BasicLit:
		if t.Kind == token.STRING {
			s, _ := strconv.Unquote(t.Value)
			return s
		}
	case *ast.ParenExpr:
		return "(" + siteString(t.X) + ")"
	case *ast.StarExpr:
		return "*" + siteString(t.X)
	case *ast.CallExpr:
		return siteString(t.Fun) + "()"
	}
	specFail("bad call-site name")
	return ""
}

func isUntypedConst(v Val) bool {
	if v.Typ == nil {
		return false
	}
	b, ok := v.Typ.(*types.Basic)
	return ok && b.Info()&types.IsUntyped != 0
}

// coerce adapts untyped constants / nil to the other operand's representation.
func (env *SpecEnv) coerce(a, b Val) (Val, Val) {
	fix := func(c, o Val) Val {
		if c.K != VTerm || o.K != VTerm {
			return c
		}
		if c.Typ != nil {
			if bt, ok := c.Typ.(*types.Basic); ok && bt.Kind() == types.UntypedNil {
				switch o.T.Sort {
				case SIface:
					return Val{K: VTerm, T: TINil, Typ: o.Typ}
				case SRef:
					return Val{K: VTerm, T: TNull, Typ: o.Typ}
				case SInt:
					return Val{K: VTerm, T: IntLit(0), Typ: o.Typ}
				}
			}
		}
		if o.T.Sort == SIface && c.T.Sort != SIface && c.Typ != nil && !isUntyped(c.Typ) && !types.IsInterface(c.Typ) {
			// concrete value compared with an interface value: box it
			return Val{K: VTerm, T: env.x.makeIface(env.st, c, c.Typ), Typ: o.Typ}
		}
		if isUntypedConst(c) && c.Retype != nil && o.Typ != nil && !isUntyped(o.Typ) {
			return c.Retype(o.Typ)
		}
		if isUntypedConst(c) && o.T.Sort.IsBV() && !c.T.Sort.IsBV() {
			if n, ok := parseIntLit(c.T); ok {
				return Val{K: VTerm, T: BVLit(n, o.T.Sort.BVWidth()), Typ: o.Typ}
			}
		}
		if isUntypedConst(c) && o.Typ != nil {
			c.Typ = o.Typ
		}
		return c
	}
	return fix(a, b), fix(b, a)
}

func (env *SpecEnv) eqVals(a, b Val) Term {
	a, b = env.coerce(a, b)
	// a by-value struct field is addressed through its sub-object: load it to compare with a struct value
	deref := func(p, o Val) Val {
		if p.K == VTerm && p.T.Sort == SRef && o.K == VStruct && p.Typ != nil {
			if pt, ok := types.Unalias(p.Typ).Underlying().(*types.Pointer); ok && isStructType(pt.Elem()) {
				v := env.st.loadStruct(pt.Elem(), p.T)
				return v
			}
		}
		return p
	}
	a, b = deref(a, b), deref(b, a)
	if a.K == VSlice && b.K == VTerm {
		a, b = b, a
	}
	if a.K == VTerm && b.K == VSlice {
		// comparison of a slice with nil
		if a.T.S == "null" {
			return Eq(b.Parts[0].T, TNull)
		}
		specFail("slice compared with non-nil value")
	}
	if a.K == VTerm && b.K == VTerm {
		if a.T.Sort != b.T.Sort {
			specFail("comparison of different sorts: %s (%s) vs %s (%s)", a.T.S, a.T.Sort, b.T.S, b.T.Sort)
		}
		return Eq(a.T, b.T)
	}
	if a.K == b.K && len(a.Parts) == len(b.Parts) {
		var cs []Term
		for i := range a.Parts {
			cs = append(cs, env.eqVals(a.Parts[i], b.Parts[i]))
		}
		return And(cs...)
	}
	specFail("cannot compare %s with %s", a, b)
	return Term{}
}

func (env *SpecEnv) constVal(c *types.Const) Val {
	return env.x.constToVal(c.Val(), c.Type())
}

func (x *Exec) constToVal(cv constant.Value, t types.Type) Val {
	switch cv.Kind() {
	case constant.Bool:
		if constant.BoolVal(cv) {
			return Val{K: VTerm, T: TTrue, Typ: t}
		}
		return Val{K: VTerm, T: TFalse, Typ: t}
	case constant.String:
		return Val{K: VTerm, T: x.enc.StrLit(constant.StringVal(cv)), Typ: t}
	case constant.Int:
		n, _ := new(big.Int).SetString(cv.ExactString(), 10)
		if isUntyped(t) {
			return Val{K: VTerm, T: IntLitBig(n), Typ: t}
		}
		return Val{K: VTerm, T: x.enc.IntConst(n, t), Typ: t}
	}
	specFail("unsupported constant kind")
	return Val{}
}

func isUntyped(t types.Type) bool {
	b, ok := t.(*types.Basic)
	return ok && b.Info()&types.IsUntyped != 0
}

func (env *SpecEnv) lookupIdent(name string) (Val, bool) {
	if v, ok := env.vars[name]; ok {
		return v, true
	}
	if n, ok := env.lets[name]; ok {
		return env.eval(n), true
	}
	switch name {
	case "true":
		return Val{K: VTerm, T: TTrue, Typ: types.Typ[types.Bool]}, true
	case "false":
		return Val{K: VTerm, T: TFalse, Typ: types.Typ[types.Bool]}, true
	case "nil":
		return Val{K: VTerm, T: TNull, Typ: types.Typ[types.UntypedNil]}, true
	}
	if env.pkg != nil {
		if o := env.pkg.Scope().Lookup(name); o != nil {
			return env.objVal(o)
		}
	}
	return Val{}, false
}

func (env *SpecEnv) objVal(o types.Object) (Val, bool) {
	switch oo := o.(type) {
	case *types.Const:
		return env.constVal(oo), true
	case *types.Var:
		// package-level variable: immutable global
		return env.x.globalVal(env.st, oo.Pkg().Name(), oo.Name(), oo.Type()), true
	}
	return Val{}, false
}

func (env *SpecEnv) evalGo(n *SNode, e ast.Expr) Val {
	switch t := e.(type) {
	case *ast.ParenExpr:
		return env.evalGo(n, t.X)
	case *ast.Ident:
		if sub, ok := n.Subs[t.Name]; ok {
			return env.eval(sub)
		}
		if v, ok := env.lookupIdent(t.Name); ok {
			return v
		}
		specFail("unknown identifier %s", t.Name)
	case *ast.BasicLit:
		switch t.Kind {
		case token.INT:
			nn, ok := new(big.Int).SetString(t.Value, 0)
			if !ok {
				specFail("bad int literal %s", t.Value)
			}
			return Val{K: VTerm, T: IntLitBig(nn), Typ: types.Typ[types.UntypedInt]}
		case token.CHAR:
			r, _, _, err := strconv.UnquoteChar(t.Value[1:len(t.Value)-1], '\'')
			if err != nil {
				specFail("bad char literal")
			}
			return Val{K: VTerm, T: IntLit(int64(r)), Typ: types.Typ[types.UntypedRune]}
		case token.STRING:
			s, err := strconv.Unquote(t.Value)
			if err != nil {
				specFail("bad string literal")
			}
			return Val{K: VTerm, T: env.x.enc.StrLit(s), Typ: types.Typ[types.String]}
		}
	case *ast.SelectorExpr:
		// package-qualified name?
		if id, ok := t.X.(*ast.Ident); ok {
			if _, isVar := env.vars[id.Name]; !isVar {
				if _, isLet := env.lets[id.Name]; !isLet {
					if pk := env.findPkg(id.Name); pk != nil && (env.pkg == nil || env.pkg.Scope().Lookup(id.Name) == nil) {
						o := pk.Scope().Lookup(t.Sel.Name)
						if o == nil {
							specFail("unknown name %s.%s", id.Name, t.Sel.Name)
						}
						if v, ok := env.objVal(o); ok {
							return v
						}
						specFail("unsupported object %s.%s", id.Name, t.Sel.Name)
					}
				}
			}
		}
		base := env.evalGo(n, t.X)
		return env.selectField(base, t.Sel.Name)
	case *ast.StarExpr:
		p := env.evalGo(n, t.X)
		return env.deref(p)
	case *ast.UnaryExpr:
		switch t.Op {
		case token.NOT:
			env.assume = !env.assume
			v := env.evalGo(n, t.X)
			env.assume = !env.assume
			return Val{K: VTerm, T: Not(v.T), Typ: v.Typ}
		case token.SUB:
			v := env.evalGo(n, t.X)
			if env.x.enc.BV && v.T.Sort.IsBV() {
				return Val{K: VTerm, T: app(v.T.Sort, "bvneg", v.T), Typ: v.Typ}
			}
			if c, ok := parseIntLit(v.T); ok {
				return Val{K: VTerm, T: IntLitBig(new(big.Int).Neg(c)), Typ: v.Typ}
			}
			return Val{K: VTerm, T: app(SInt, "-", v.T), Typ: v.Typ}
		case token.XOR:
			v := env.evalGo(n, t.X)
			return Val{K: VTerm, T: env.x.enc.IntNot(v.T, v.Typ), Typ: v.Typ}
		case token.AND:
			specFail("address-of is not supported in specifications")
		case token.MUL:
			return env.deref(env.evalGo(n, t.X))
		}
	case *ast.BinaryExpr:
		return env.evalBinary(n, t)
	case *ast.IndexExpr:
		base := env.evalGo(n, t.X)
		idx := env.evalGo(n, t.Index)
		return env.index(base, idx)
	case *ast.SliceExpr:
		specFail("slice expressions are not supported in specifications; use sub(s, a, b)")
	case *ast.TypeAssertExpr:
		v := env.evalGo(n, t.X)
		typ := env.resolveType(typeExprString(t.Type))
		return env.x.ifacePayload(v.T, typ)
	case *ast.CallExpr:
		return env.evalCall(n, t)
	}
	specFail("unsupported expression in specification: %T", e)
	return Val{}
}

func (env *SpecEnv) deref(p Val) Val {
	if p.Typ == nil {
		specFail("dereference of untyped value")
	}
	pt, ok := types.Unalias(p.Typ).Underlying().(*types.Pointer)
	if !ok {
		specFail("dereference of non-pointer")
	}
	v := env.st.loadCellPure(pt.Elem(), p.T)
	v.Typ = pt.Elem()
	return v
}

func (env *SpecEnv) selectField(base Val, name string) Val {
	if base.Typ == nil {
		specFail("field %s of untyped value", name)
	}
	t := types.Unalias(base.Typ)
	obj, index, _ := types.LookupFieldOrMethod(t, true, nil, name)
	if obj == nil && env.pkg != nil {
		obj, index, _ = types.LookupFieldOrMethod(t, true, env.pkg, name)
	}
	if obj == nil {
		// unexported field of another package: search all module packages
		for _, pp := range env.x.prog.Pkgs {
			if obj, index, _ = types.LookupFieldOrMethod(t, true, pp.Types, name); obj != nil {
				break
			}
		}
	}
	fv, ok := obj.(*types.Var)
	if !ok || !fv.IsField() {
		specFail("%s is not a field of %s", name, t)
	}
	cur := base
	for _, fi := range index {
		cur = env.fieldStep(cur, fi)
	}
	return cur
}

// fieldStep selects field number fi from cur (a pointer to struct, or a struct value).
func (env *SpecEnv) fieldStep(cur Val, fi int) Val {
	t := types.Unalias(cur.Typ)
	if pt, ok := t.Underlying().(*types.Pointer); ok {
		st := pt.Elem()
		sstruct, ok := types.Unalias(st).Underlying().(*types.Struct)
		if !ok {
			specFail("field of pointer to non-struct")
		}
		f := sstruct.Field(fi)
		if isStructType(f.Type()) && !isMutexType(f.Type()) {
			// by-value struct field: yield a pointer to the sub-object
			return Val{K: VTerm, T: env.st.subRef(st, f, cur.T), Typ: types.NewPointer(f.Type())}
		}
		v := env.st.loadFieldPure(st, f, cur.T)
		v.Typ = f.Type()
		return v
	}
	if sstruct, ok := t.Underlying().(*types.Struct); ok {
		if cur.K != VStruct {
			specFail("struct value expected")
		}
		v := cur.Parts[fi]
		v.Typ = sstruct.Field(fi).Type()
		return v
	}
	specFail("field selection on %s", t)
	return Val{}
}

func (env *SpecEnv) index(base, idx Val) Val {
	if base.Typ == nil {
		specFail("index of untyped value")
	}
	t := types.Unalias(base.Typ)
	if pt, ok := t.Underlying().(*types.Pointer); ok {
		// pointer to sub-object struct? not indexable
		_ = pt
	}
	switch u := t.Underlying().(type) {
	case *types.Map:
		_, idx = env.coerce(Val{K: VTerm, T: Term{"", env.x.enc.sortsOf(u.Key())[0]}, Typ: u.Key()}, idx)
		v := env.st.mapGet(u, base.T, idx.T)
		v.Typ = u.Elem()
		return v
	case *types.Slice:
		i := env.asInt(idx)
		v := env.st.loadElemPure(u.Elem(), base.Parts[0].T, app(SInt, "+", base.Parts[1].T, i))
		v.Typ = u.Elem()
		return v
	case *types.Basic:
		if u.Info()&types.IsString != 0 {
			i := env.asInt(idx)
			return Val{K: VTerm, T: env.x.byteTerm(app(SInt, "sat", base.T, i)), Typ: types.Typ[types.Uint8]}
		}
	}
	specFail("cannot index %s", t)
	return Val{}
}

func (env *SpecEnv) asInt(v Val) Term {
	if v.T.Sort.IsBV() {
		specFail("bit-vector value used as index")
	}
	return v.T
}

func (env *SpecEnv) evalBinary(n *SNode, t *ast.BinaryExpr) Val {
	switch t.Op {
	case token.LAND:
		a := env.evalGo(n, t.X)
		if a.T.S == "false" {
			return Val{K: VTerm, T: TFalse, Typ: types.Typ[types.Bool]}
		}
		b := env.evalGo(n, t.Y)
		return Val{K: VTerm, T: And(a.T, b.T), Typ: types.Typ[types.Bool]}
	case token.LOR:
		a := env.evalGo(n, t.X)
		if a.T.S == "true" {
			return Val{K: VTerm, T: TTrue, Typ: types.Typ[types.Bool]}
		}
		b := env.evalGo(n, t.Y)
		return Val{K: VTerm, T: Or(a.T, b.T), Typ: types.Typ[types.Bool]}
	case token.EQL:
		a, b := env.evalGo(n, t.X), env.evalGo(n, t.Y)
		return Val{K: VTerm, T: env.eqVals(a, b), Typ: types.Typ[types.Bool]}
	case token.NEQ:
		a, b := env.evalGo(n, t.X), env.evalGo(n, t.Y)
		return Val{K: VTerm, T: Not(env.eqVals(a, b)), Typ: types.Typ[types.Bool]}
	}
	a, b := env.evalGo(n, t.X), env.evalGo(n, t.Y)
	a, b = env.coerce(a, b)
	typ := a.Typ
	if typ == nil || isUntyped(typ) {
		typ = b.Typ
	}
	if typ == nil {
		typ = types.Typ[types.Int]
	}
	switch t.Op {
	case token.LSS, token.LEQ, token.GTR, token.GEQ:
		if a.T.Sort == SStr {
			r := env.x.enc.UF("strlt", SBool, a.T, b.T)
			switch t.Op {
			case token.LSS:
				return TV(r)
			case token.GTR:
				return TV(env.x.enc.UF("strlt", SBool, b.T, a.T))
			case token.LEQ:
				return TV(Not(env.x.enc.UF("strlt", SBool, b.T, a.T)))
			default:
				return TV(Not(r))
			}
		}
		return Val{K: VTerm, T: env.x.enc.IntCmp(t.Op, a.T, b.T, typ), Typ: types.Typ[types.Bool]}
	case token.ADD:
		if a.T.Sort == SStr {
			return Val{K: VTerm, T: env.x.strConcat(a.T, b.T), Typ: types.Typ[types.String]}
		}
		fallthrough
	case token.SUB, token.MUL, token.QUO, token.REM, token.AND, token.OR, token.XOR, token.AND_NOT, token.SHL, token.SHR:
		return Val{K: VTerm, T: env.x.enc.IntBin(t.Op, a.T, b.T, typ, false), Typ: typ}
	}
	specFail("unsupported operator %s", t.Op)
	return Val{}
}

// errIdx: index of the last result of error type.
func (env *SpecEnv) findEvents(site string) []Event {
	// "site#k": the k-th (0-based) call at that site
	if i := strings.LastIndex(site, "#"); i > 0 {
		var k int
		if _, err := fmt.Sscanf(site[i+1:], "%d", &k); err == nil {
			all := env.findEvents(site[:i])
			if k < len(all) {
				return []Event{all[k]}
			}
			return nil
		}
	}
	var out []Event
	for _, ev := range env.events {
		if ev.Site == site || ev.Callee == site || ev.Full == site || strings.HasSuffix(ev.Site, "."+site) && strings.Contains(site, ".") {
			out = append(out, ev)
		}
	}
	return out
}

func (env *SpecEnv) evalCall(n *SNode, c *ast.CallExpr) Val {
	enc := env.x.enc
	// conversions and special forms
	if id, ok := c.Fun.(*ast.Ident); ok {
		if _, shadow := env.vars[id.Name]; !shadow {
			switch id.Name {
			case "old":
				o := env.old
				if o == nil {
					o = env
				}
				oc := o.child()
				// bound variables of enclosing quantifiers stay visible
				for _, b := range env.bound {
					oc.vars[b] = env.vars[b]
				}
				for k, v := range env.vars {
					if strings.HasPrefix(v.T.S, "q!") {
						oc.vars[k] = v
					}
				}
				oc.lets = env.lets
				return oc.evalGo(n, c.Args[0])
			case "len":
				v := env.evalGo(n, c.Args[0])
				return Val{K: VTerm, T: env.lenOf(v), Typ: types.Typ[types.Int]}
			case "cap":
				v := env.evalGo(n, c.Args[0])
				if v.K == VSlice {
					return Val{K: VTerm, T: v.Parts[3].T, Typ: types.Typ[types.Int]}
				}
				specFail("cap of non-slice")
			case "min", "max":
				a, b := env.evalGo(n, c.Args[0]), env.evalGo(n, c.Args[1])
				a, b = env.coerce(a, b)
				op := token.LEQ
				if id.Name == "max" {
					op = token.GEQ
				}
				return Val{K: VTerm, T: Ite(enc.IntCmp(op, a.T, b.T, a.Typ), a.T, b.T), Typ: a.Typ}
			case "__is":
				v := env.evalGo(n, c.Args[0])
				typ := env.resolveType(typeExprString(c.Args[1]))
				return TV(env.x.ifaceIs(v.T, typ))
			case "dom":
				m := env.evalGo(n, c.Args[0])
				k := env.evalGo(n, c.Args[1])
				mt, ok := types.Unalias(m.Typ).Underlying().(*types.Map)
				if !ok {
					specFail("dom of non-map")
				}
				_, k = env.coerce(Val{K: VTerm, T: Term{"", enc.sortsOf(mt.Key())[0]}, Typ: mt.Key()}, k)
				return TV(env.st.mapDom(mt, m.T, k.T))
			case "fresh":
				v := env.evalGo(n, c.Args[0])
				o := env.old
				if o == nil {
					o = env
				}
				if v.K == VSlice {
					v = v.Parts[0]
				}
				return TV(And(Not(Eq(v.T, TNull)), Not(o.st.isAlloc(v.T)), env.st.isAlloc(v.T)))
			case "hasPrefix":
				a, b := env.evalGo(n, c.Args[0]), env.evalGo(n, c.Args[1])
				return TV(env.x.hasPrefix(a.T, b.T))
			case "substr":
				sv := env.evalGo(n, c.Args[0])
				a, b := env.evalGo(n, c.Args[1]), env.evalGo(n, c.Args[2])
				if pa, ok := parseIntLit(a.T); ok && pa.Sign() == 0 && b.T.S == app(SInt, "slen", sv.T).S {
					return Val{K: VTerm, T: sv.T, Typ: types.Typ[types.String]}
				}
				return Val{K: VTerm, T: env.x.strSub(sv.T, a.T, b.T), Typ: types.Typ[types.String]}
			case "disjoint":
				a, b := env.evalGo(n, c.Args[0]), env.evalGo(n, c.Args[1])
				if a.K != VSlice || b.K != VSlice {
					specFail("disjoint needs two slices")
				}
				return TV(Or(Eq(a.Parts[0].T, TNull), Eq(b.Parts[0].T, TNull), Not(Eq(a.Parts[0].T, b.Parts[0].T))))
			case "allocated":
				v := env.evalGo(n, c.Args[0])
				return TV(env.st.isAlloc(v.T))
			case "failed", "called", "result", "arg", "recv", "ncalls", "before", "nocall", "onlycalls", "callsto", "firstcall":
				return env.evalTrace(n, id.Name, c)
			case "unchanged":
				return env.evalUnchanged(n, c)
			case "held", "wheld":
				return env.evalHeld(n, c, id.Name)
			case "errorsIs":
				a, b := env.evalGo(n, c.Args[0]), env.evalGo(n, c.Args[1])
				return TV(env.x.errorsIs(a.T, b.T))
			case "tagof":
				v := env.evalGo(n, c.Args[0])
				return Val{K: VTerm, T: app(SInt, "tagof", v.T), Typ: types.Typ[types.Int]}
			case "tag":
				typ := env.resolveType(typeExprString(c.Args[0]))
				return Val{K: VTerm, T: enc.TagTerm(typ), Typ: types.Typ[types.Int]}
			case "bool2int":
				v := env.evalGo(n, c.Args[0])
				return Val{K: VTerm, T: Ite(v.T, IntLit(1), IntLit(0)), Typ: types.Typ[types.Int]}
			}
			if pd, ok := env.x.specs.Preds[id.Name]; ok {
				cc := env.child()
				if len(c.Args) != len(pd.Params) {
					specFail("pred %s: wrong number of arguments", id.Name)
				}
				for i, p := range pd.Params {
					cc.vars[p] = env.evalGo(n, c.Args[i])
				}
				cc.lets = nil
				if pd.Body == nil {
					specFail("pred %s has no body", id.Name)
				}
				return cc.eval(pd.Body)
			}
			// conversion T(x) with T a basic or named type
			if o := types.Universe.Lookup(id.Name); o != nil {
				if tn, ok := o.(*types.TypeName); ok && len(c.Args) == 1 {
					return env.convert(env.evalGo(n, c.Args[0]), tn.Type())
				}
			}
			if env.pkg != nil {
				if o := env.pkg.Scope().Lookup(id.Name); o != nil {
					if tn, ok := o.(*types.TypeName); ok && len(c.Args) == 1 {
						return env.convert(env.evalGo(n, c.Args[0]), tn.Type())
					}
					if fn, ok := o.(*types.Func); ok {
						return env.pureCall(n, fn, nil, c.Args)
					}
				}
			}
			specFail("unknown function %s in specification", id.Name)
		}
	}
	if sel, ok := c.Fun.(*ast.SelectorExpr); ok {
		// pkg.Func(...) or pkg.Type(x)
		if id, ok := sel.X.(*ast.Ident); ok {
			if _, isVar := env.vars[id.Name]; !isVar {
				if _, isLet := env.lets[id.Name]; !isLet {
					if pk := env.findPkg(id.Name); pk != nil {
						o := pk.Scope().Lookup(sel.Sel.Name)
						switch oo := o.(type) {
						case *types.TypeName:
							return env.convert(env.evalGo(n, c.Args[0]), oo.Type())
						case *types.Func:
							return env.pureCall(n, oo, nil, c.Args)
						}
						specFail("unknown function %s.%s", id.Name, sel.Sel.Name)
					}
				}
			}
		}
		// method call on a value: pure observer
		recv := env.evalGo(n, sel.X)
		if recv.Typ == nil {
			specFail("method call on untyped value")
		}
		obj, _, _ := types.LookupFieldOrMethod(recv.Typ, true, env.pkg, sel.Sel.Name)
		if obj == nil {
			for _, pp := range env.x.prog.Pkgs {
				if obj, _, _ = types.LookupFieldOrMethod(recv.Typ, true, pp.Types, sel.Sel.Name); obj != nil {
					break
				}
			}
		}
		fn, ok := obj.(*types.Func)
		if !ok {
			specFail("%s is not a method of %s", sel.Sel.Name, recv.Typ)
		}
		return env.pureCall(n, fn, &recv, c.Args)
	}
	specFail("unsupported call in specification")
	return Val{}
}

func (env *SpecEnv) convert(v Val, to types.Type) Val {
	if v.K != VTerm {
		v.Typ = to
		return v
	}
	if _, ok := basicIntInfo(to); ok && (v.T.Sort == SInt || v.T.Sort.IsBV()) {
		from := v.Typ
		if from == nil || isUntyped(from) {
			if n, ok := parseIntLit(v.T); ok {
				return Val{K: VTerm, T: env.x.enc.IntConst(n, to), Typ: to}
			}
			from = to
		}
		if env.x.enc.BV {
			return Val{K: VTerm, T: env.x.enc.ConvertInt(v.T, from, to), Typ: to}
		}
		// specifications are mathematical in Int mode: conversions keep the value
		return Val{K: VTerm, T: v.T, Typ: to}
	}
	v.Typ = to
	return v
}

// pureCall: application of a pure function/method in a specification.
func (env *SpecEnv) pureCall(n *SNode, fn *types.Func, recv *Val, args []ast.Expr) Val {
	var avs []Val
	for _, a := range args {
		avs = append(avs, env.evalGo(n, a))
	}
	return env.x.pureApply(env.st, fn, recv, avs)
}

func (env *SpecEnv) lenOf(v Val) Term {
	if v.K == VSlice {
		return v.Parts[2].T
	}
	if v.K == VTerm && v.T.Sort == SStr {
		return app(SInt, "slen", v.T)
	}
	if v.Typ != nil {
		if mt, ok := types.Unalias(v.Typ).Underlying().(*types.Map); ok {
			return env.st.mapLen(mt, v.T)
		}
	}
	specFail("len of unsupported value")
	return Term{}
}

func (env *SpecEnv) evalTrace(n *SNode, name string, c *ast.CallExpr) Val {
	site := ""
	if len(c.Args) > 0 && name != "nocall" && name != "onlycalls" {
		site = siteString(c.Args[0])
	}
	evs := env.findEvents(site)
	switch name {
	case "called":
		if len(evs) > 0 {
			return TV(TTrue)
		}
		return TV(TFalse)
	case "ncalls":
		return Val{K: VTerm, T: IntLit(int64(len(evs))), Typ: types.Typ[types.Int]}
	case "failed":
		var ds []Term
		for _, ev := range evs {
			if ev.ErrIdx >= 0 {
				ds = append(ds, Not(Eq(ev.Results[ev.ErrIdx].T, TINil)))
			}
		}
		return TV(Or(ds...))
	case "result":
		if len(evs) == 0 {
			specFail("result(%s): no such call on this path (guard with called())", site)
		}
		ev := evs[len(evs)-1]
		k := 0
		if len(c.Args) > 1 {
			kv := env.evalGo(n, c.Args[1])
			kn, _ := parseIntLit(kv.T)
			k = int(kn.Int64())
		} else if len(ev.Results) > 1 && ev.ErrIdx >= 0 && false {
			k = ev.ErrIdx
		}
		if k >= len(ev.Results) {
			specFail("result(%s,%d): no such result", site, k)
		}
		return ev.Results[k]
	case "arg":
		if len(evs) == 0 {
			specFail("arg(%s): no such call on this path (guard with called())", site)
		}
		ev := evs[len(evs)-1]
		kv := env.evalGo(n, c.Args[1])
		kn, _ := parseIntLit(kv.T)
		if int(kn.Int64()) >= len(ev.Args) {
			specFail("arg(%s,%d): no such argument", site, kn.Int64())
		}
		return ev.Args[kn.Int64()]
	case "recv":
		if len(evs) == 0 || evs[len(evs)-1].Recv == nil {
			specFail("recv(%s): no such call on this path", site)
		}
		return *evs[len(evs)-1].Recv
	case "before":
		a := env.findEvents(siteString(c.Args[0]))
		b := env.findEvents(siteString(c.Args[1]))
		if len(a) == 0 || len(b) == 0 {
			return TV(TFalse)
		}
		if a[0].Seq < b[0].Seq {
			return TV(TTrue)
		}
		return TV(TFalse)
	case "firstcall":
		if len(env.events) > 0 && len(evs) > 0 && env.events[0].Seq == evs[0].Seq {
			return TV(TTrue)
		}
		return TV(TFalse)
	case "nocall":
		// nocall(x): no opaque call whose receiver is x
		rv := env.evalGo(n, c.Args[0])
		var cs []Term
		for _, ev := range env.events {
			if ev.Recv != nil && ev.Recv.K == VTerm && ev.Recv.T.Sort == rv.T.Sort {
				cs = append(cs, Not(Eq(ev.Recv.T, rv.T)))
			}
		}
		return TV(And(cs...))
	case "onlycalls":
		// onlycalls(x, "M1", "M2"): every opaque call with receiver x is one of the named methods
		rv := env.evalGo(n, c.Args[0])
		allowed := map[string]bool{}
		for _, a := range c.Args[1:] {
			allowed[siteString(a)] = true
		}
		var cs []Term
		for _, ev := range env.events {
			if ev.Recv != nil && ev.Recv.K == VTerm && ev.Recv.T.Sort == rv.T.Sort && !allowed[ev.Callee] {
				cs = append(cs, Not(Eq(ev.Recv.T, rv.T)))
			}
		}
		return TV(And(cs...))
	case "callsto":
		// callsto(x): number of opaque calls with receiver syntactically equal to x's term
		rv := env.evalGo(n, c.Args[0])
		k := 0
		for _, ev := range env.events {
			if ev.Recv != nil && ev.Recv.K == VTerm && ev.Recv.T.S == rv.T.S {
				k++
			}
		}
		return Val{K: VTerm, T: IntLit(int64(k)), Typ: types.Typ[types.Int]}
	}
	specFail("unknown trace function %s", name)
	return Val{}
}

// unchanged(T.f, ...) / unchanged(heap): the named field arrays are equal in old and new state.
func (env *SpecEnv) evalUnchanged(n *SNode, c *ast.CallExpr) Val {
	o := env.old
	if o == nil {
		return TV(TTrue)
	}
	var cs []Term
	names := map[string]bool{}
	for _, a := range c.Args {
		s := siteString(a)
		if s == "heap" {
			for name := range env.x.heapSorts {
				if !strings.HasPrefix(name, "L.") && name != "alloc" {
					names[name] = true
				}
			}
			continue
		}
		found := false
		for name := range env.x.heapSorts {
			if name == "F."+s || strings.HasPrefix(name, "F."+s+".") || name == s || strings.HasPrefix(name, s+".") || strings.HasPrefix(name, "F."+env.pkg.Name()+"."+s) {
				names[name] = true
				found = true
			}
		}
		_ = found
	}
	for _, name := range sortedKeys(names) {
		sort := env.x.heapSorts[name]
		cur := env.st.hgetPure(name, sort)
		old := o.st.hgetPure(name, sort)
		if cur.S != old.S {
			cs = append(cs, env.x.arrEqOnOld(o.st, name, cur, old))
		}
	}
	return TV(And(cs...))
}

func (env *SpecEnv) evalHeld(n *SNode, c *ast.CallExpr, kind string) Val {
	// held(x.mu): some lock (read or write) is held; wheld: write lock
	sel, ok := c.Args[0].(*ast.SelectorExpr)
	if !ok {
		specFail("held needs owner.mutex")
	}
	owner := env.evalGo(n, sel.X)
	pt, ok := types.Unalias(owner.Typ).Underlying().(*types.Pointer)
	if !ok {
		specFail("held: owner must be a pointer")
	}
	arr, ref := env.x.guardLoc(env.st, pt.Elem(), owner.T, sel.Sel.Name)
	w := Select(env.st.hgetPure("L."+arr+".w", SArr(SRef, SBool)), ref)
	if kind == "wheld" {
		return TV(w)
	}
	r := Select(env.st.hgetPure("L."+arr+".r", SArr(SRef, SInt)), ref)
	return TV(Or(w, app(SBool, ">", r, IntLit(0))))
}
