#!/bin/sh
# Builds the verifier from files on disk only (offline).
set -e
cd "$(dirname "$0")"
export GOFLAGS=-mod=mod GOPROXY=off GOSUMDB=off GOTOOLCHAIN=local
mkdir -p bin
(cd engine && go build -o ../bin/govc ./cmd/govc)
echo "govc built"
