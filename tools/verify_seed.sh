#!/bin/bash
# verify_seed.sh <name> <property> <outdir>: confirm a seeded change in a fresh scratch worktree of /repo,
# then store it under /verif/seeded/<name>/ .  Confirms: patch applies, builds, suite passes with it,
# demo fails with it, demo passes without it.
set -u
name=$1; prop=$2; out=$3
export GOFLAGS=-mod=mod GOPROXY=off GOSUMDB=off GOTOOLCHAIN=local
W=$(mktemp -d /tmp/seedchk-XXXX); rmdir $W
git -C /repo worktree add -q --detach $W HEAD || exit 2
cleanup() { git -C /repo worktree remove --force $W 2>/dev/null; rm -rf $W; }
trap cleanup EXIT
demo=$(ls $out/*_test.go | head -1)
ddir=$(python3 -c "import json;print(json.load(open('$out/meta.json')).get('demo_dir','.'))")
dcmd=$(python3 -c "import json;print(json.load(open('$out/meta.json')).get('demo_cmd',''))")
cp $demo $W/$ddir/
cd $W
race=""; echo "$dcmd" | grep -q -- "-race" && race="-race"
tags=$(echo "$dcmd" | grep -o -- "-tags [a-z_,]*"); race="$race $tags"
runDemo() { (cd $W/$ddir && go test $race -vet=off -count=1 -run 'TestSeedDemo$' $1 . 2>&1 | tail -5); }
echo "== demo WITHOUT change (must pass)"; r0=$(runDemo ""); echo "$r0" | tail -2
git apply $out/patch.diff || { echo "PATCH DOES NOT APPLY"; exit 1; }
go build ./... || { echo "BUILD FAILS"; exit 1; }
echo "== demo WITH change (must fail)"; r1=$(runDemo ""); echo "$r1" | tail -3
rm $W/$ddir/$(basename $demo)
echo "== suite WITH change"; s=$(/verif/tools/suite.sh $W); echo "$s"
ok=1
echo "$r0" | grep -q "^ok" || { echo "demo does not pass without change"; ok=0; }
echo "$r1" | grep -q "FAIL" || { echo "demo does not fail with change"; ok=0; }
echo "$s" | grep -q "passed 2906" || { echo "suite count differs"; ok=0; }
[ $(echo "$s" | grep -c "^FAIL") -le 2 ] || { echo "suite has new failures"; ok=0; }
if [ $ok = 1 ]; then
  mkdir -p /verif/seeded/$name
  cp $out/patch.diff /verif/seeded/$name/patch.diff
  cp $demo /verif/seeded/$name/
  python3 - <<PY
import json
m=json.load(open('$out/meta.json'))
m['property']='$prop'
m['confirmed_by_me']={'patch_applies':True,'builds':True,'suite_passed':'2906 (only the environmental osfs TestCreateHomeDir fails, as on the unchanged tree)','demo_fails_with_change':True,'demo_passes_without_change':True,'how':'tools/verify_seed.sh in a fresh scratch worktree of /repo HEAD'}
json.dump(m,open('/verif/seeded/$name/meta.json','w'),indent=1)
PY
  echo "CONFIRMED and stored in /verif/seeded/$name"
else
  echo "NOT CONFIRMED"
fi
