#!/usr/bin/env python3
"""mkmutant.py <name> <props> <file-relative-to-repo> <old> <new> : writes selftest/mutants/<name>.patch"""
import sys, subprocess, os
name, props, rel, old, new = sys.argv[1:6]
p = os.path.join("/repo", rel)
s = open(p).read()
if s.count(old) < 1:
    sys.exit("pattern not found in %s: %r" % (rel, old))
open(p, "w").write(s.replace(old, new, 1))
d = subprocess.run(["git", "-C", "/repo", "diff", "--", rel], capture_output=True, text=True).stdout
open(p, "w").write(s)
open("/verif/selftest/mutants/%s.patch" % name, "w").write("# prop: %s\n%s" % (props, d))
print("wrote", name)
