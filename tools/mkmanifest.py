#!/usr/bin/env python3
"""Regenerates /verif/MANIFEST.json from tools/claims.json (the per-property claim texts)."""
import json, subprocess, os
root = os.path.dirname(os.path.dirname(os.path.abspath(__file__)))
claims = json.load(open(os.path.join(root, "tools", "claims.json")))
props = [json.loads(l) for l in open(os.path.join(root, "properties.jsonl"))]
hooks = subprocess.run(["git", "-C", "/repo", "log", "--format=%H %s"], capture_output=True, text=True).stdout.splitlines()
hook_commits = [l.split()[0] for l in hooks if " verif hook:" in l]
checks, na = [], []
for p in props:
    pid = p["id"]
    c = claims.get(pid)
    if not c or not c.get("claimed"):
        na.append({"property_id": pid, "reason": (c or {}).get("reason", "check not built yet (engine under construction); see DESIGN.md section 5")})
        continue
    checks.append({
        "property_id": pid,
        "quick_cmd": "./check %s quick" % pid,
        "thorough_cmd": "./check %s thorough" % pid,
        "evidence_file": "/verif/evidence/%s.json" % pid,
        "replay_cmd_template": "./check replay {path}",
        "engine": "govc",
        "level_claimed": {"category": "proof", "text": c["text"], "design_ref": c.get("design_ref", "DESIGN.md section 5, " + pid)},
        "level_note": c["note"],
        "technique": c.get("technique", "contract-based deductive verification: weakest-precondition style VCs generated from go/ssa of the real code against //@ contracts, discharged by z3/cvc5"),
    })
m = {
    "version": 1,
    "setup_cmd": "./setup.sh",
    "hooks": {"guard": "verif", "enable": "go build/test -tags verif: adds only the comment-only contract files zz_contracts_verif.go (no executable hook)",
              "baseline_off_cmd": "cd /repo && go test -mod=mod -vet=off -count=1 -timeout 25m ./...",
              "source_commits": list(reversed(hook_commits)), "add_only": True},
    "engines": [{"name": "govc", "path": "engine/cmd/govc", "serves_properties": [c["property_id"] for c in checks],
                 "kind_free_text": "self-written verification-condition generator over go/ssa (x/tools v0.29.0): symbolic execution of the real function bodies against //@ contracts kept in /repo/**/zz_contracts_verif.go and /verif/prelude/*.spec; obligations discharged by z3 4.8.12, z3-new 5.1.0, cvc5 1.0"}],
    "checks": checks,
    "not_applicable": na,
    "notes": "exit 0 = every claimed obligation discharged; exit 1 = VIOLATION line(s); exit 2 = tool error (vacuity alarm, clause without obligation, path cap, solver disagreement). Known findings: KNOWN_FINDINGS.txt.",
}
json.dump(m, open(os.path.join(root, "MANIFEST.json"), "w"), indent=1)
print("checks:", [c["property_id"] for c in checks], "not_applicable:", len(na))
