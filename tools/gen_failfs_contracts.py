#!/usr/bin/env python3
"""Generates /repo/vfs/failfs/zz_contracts_verif.go from the table below.

The table is the specification of C12 per method: which FnVFS id is consulted, with which
parameters in the FailParam, which base method is then called with which arguments, and how the
result is wrapped.  It is written from the property statement and fnvfs.go, not from the code."""

ZERO = {"string": '""', "File": "nil", "FileInfo": "nil", "VFS": "nil", "[]DirEntry": "nil", "[]string": "nil", "[]byte": "nil", "int": "0", "int64": "0", "bool": "false"}

# (method, params, fn id, {FailParam field: param}, base method, base args, result kinds)
VFS_PRIMS = [
    ("Abs", ["path"], "FnAbs", {"Path": "path"}, "Abs", ["path"], ["string", "err"]),
    ("Chdir", ["dir"], "FnChdir", {"Path": "dir"}, "Chdir", ["dir"], ["err"]),
    ("Chmod", ["name", "mode"], "FnChmod", {"Path": "name", "Perm": "mode"}, "Chmod", ["name", "mode"], ["err"]),
    ("Chown", ["name", "uid", "gid"], "FnChown", {"Path": "name", "Uid": "uid", "Gid": "gid"}, "Chown", ["name", "uid", "gid"], ["err"]),
    ("Chtimes", ["name", "atime", "mtime"], "FnChtimes", {"Path": "name", "ATime": "atime", "MTime": "mtime"}, "Chtimes", ["name", "atime", "mtime"], ["err"]),
    ("CreateTemp", ["dir", "pattern"], "FnCreateTemp", {"Path": "dir"}, "CreateTemp", ["dir", "pattern"], ["File", "err"]),
    ("EvalSymlinks", ["path"], "FnEvalSymlinks", {"Path": "path"}, "EvalSymlinks", ["path"], ["string", "err"]),
    ("Getwd", [], "FnGetwd", {}, "Getwd", [], ["string", "err"]),
    ("Lchown", ["name", "uid", "gid"], "FnLchown", {"Path": "name", "Uid": "uid", "Gid": "gid"}, "Lchown", ["name", "uid", "gid"], ["err"]),
    ("Link", ["oldname", "newname"], "FnLink", {"Path": "oldname", "NewPath": "newname"}, "Link", ["oldname", "newname"], ["err"]),
    ("Lstat", ["name"], "FnLstat", {"Path": "name"}, "Lstat", ["name"], ["FileInfo", "err"]),
    ("Mkdir", ["name", "perm"], "FnMkdir", {"Path": "name", "Perm": "perm"}, "Mkdir", ["name", "perm"], ["err"]),
    ("MkdirAll", ["path", "perm"], "FnMkdirAll", {"Path": "path", "Perm": "perm"}, "MkdirAll", ["path", "perm"], ["err"]),
    ("OpenFile", ["name", "flag", "perm"], "FnOpenFile", {"Path": "name", "Flag": "flag", "Perm": "perm"}, "OpenFile", ["name", "flag", "perm"], ["File", "err"]),
    ("Readlink", ["name"], "FnReadlink", {"Path": "name"}, "Readlink", ["name"], ["string", "err"]),
    ("Remove", ["name"], "FnRemove", {"Path": "name"}, "Remove", ["name"], ["err"]),
    ("RemoveAll", ["path"], "FnRemoveAll", {"Path": "path"}, "RemoveAll", ["path"], ["err"]),
    ("Rename", ["oldname", "newname"], "FnRename", {"Path": "oldname", "NewPath": "newname"}, "Rename", ["oldname", "newname"], ["err"]),
    ("SetUserByName", ["name"], "FnSetUserByName", {"Path": "name"}, "SetUserByName", ["name"], ["err"]),
    ("Stat", ["path"], "FnStat", {"Path": "path"}, "Stat", ["path"], ["FileInfo", "err"]),
    ("Sub", ["dir"], "FnSub", {"Path": "dir"}, "Sub", ["dir"], ["VFS", "err"]),
    ("Symlink", ["oldname", "newname"], "FnSymlink", {"Path": "oldname", "NewPath": "newname"}, "Symlink", ["oldname", "newname"], ["err"]),
    ("Truncate", ["name", "size"], "FnTruncate", {"Path": "name", "Size": "size"}, "Truncate", ["name", "size"], ["err"]),
    ("WalkDir", ["root", "fn"], "FnWalkDir", {"Path": "root"}, "WalkDir", ["root"], ["err"]),
]

# composites: consult (optionally) then run the generic helper over the WRAPPER
VFS_COMPOSITES = [
    ("Create", ["name"], None, "avfs.Create", ["File", "err"]),
    ("WriteFile", ["name", "data", "perm"], None, "avfs.WriteFile", ["err"]),
    ("ReadFile", ["name"], "FnReadFile", "avfs.ReadFile", ["[]byte", "err"]),
    ("ReadDir", ["name"], "FnReadDir", "avfs.ReadDir", ["[]DirEntry", "err"]),
    ("Glob", ["pattern"], None, "avfs.Glob", ["[]string", "err"]),
    ("MkdirTemp", ["dir", "pattern"], "FnMkdirTemp", "avfs.MkdirTemp", ["string", "err"]),
]

# plain forwarders (no consultation): result is the base's result, same arguments
VFS_FORWARD = [
    ("Idm", [], "Idm"), ("SameFile", ["fi1", "fi2"], "SameFile"), ("SetIdm", ["idm"], "SetIdm"),
    ("SetUMask", ["mask"], "SetUMask"), ("UMask", [], "UMask"), ("User", [], "User"),
    ("TempDir0", [], None),
]

FILE_PRIMS = [
    ("Chdir", [], "FnFileChdir", {}, "Chdir", [], ["err"]),
    ("Chmod", ["mode"], "FnFileChmod", {"Perm": "mode"}, "Chmod", ["mode"], ["err"]),
    ("Chown", ["uid", "gid"], "FnFileChown", {"Uid": "uid", "Gid": "gid"}, "Chown", ["uid", "gid"], ["err"]),
    ("Close", [], "FnFileClose", {}, "Close", [], ["err"]),
    ("Read", ["b"], "FnFileRead", {}, "Read", ["b"], ["int", "err"]),
    ("ReadAt", ["b", "off"], "FnFileReadAt", {}, "ReadAt", ["b", "off"], ["int", "err"]),
    ("ReadDir", ["n"], "FnFileReadDir", {}, "ReadDir", ["n"], ["[]DirEntry", "err"]),
    ("Readdirnames", ["n"], "FnFileReaddirnames", {}, "Readdirnames", ["n"], ["[]string", "err"]),
    ("Seek", ["offset", "whence"], "FnFileSeek", {}, "Seek", ["offset", "whence"], ["int64", "err"]),
    ("Stat", [], "FnFileStat", {}, "Stat", [], ["FileInfo", "err"]),
    ("Sync", [], "FnFileSync", {}, "Sync", [], ["err"]),
    ("Truncate", ["size"], "FnFileTruncate", {"Size": "size"}, "Truncate", ["size"], ["err"]),
    ("Write", ["b"], "FnFileWrite", {}, "Write", ["b"], ["int", "err"]),
    ("WriteAt", ["b", "off"], "FnFileWriteAt", {}, "WriteAt", ["b", "off"], ["int", "err"]),
]

out = []
w = out.append
w("//go:build verif")
w("")
w("package failfs")
w("")
w("// Contracts for the deductive verifier in /verif (govc); generated by /verif/tools/gen_failfs_contracts.py")
w("// from the per-method table of property C12.  Comments only; compiled only with the build tag \"verif\".")
w("")
w("//@ type FailFS")
w("//@   inv[C12] self.baseFS != nil && self.failFunc != nil")
w("//@ type FailFile")
w("//@   inv[C12] self.baseFile != nil && self.vfs != nil && self.vfs.baseFS != nil && self.vfs.failFunc != nil")
w("")
w("// The consultation of the failure function.  What a FailFunc does is user code: it is assumed not to")
w("// replace the wrapper's base file system or failure function (trusted).")
w("//@ func (*FailFS).fail")
w("//@   event")
w("//@   trusted")
w("//@   ensures vfs.baseFS == old(vfs.baseFS) && vfs.failFunc == old(vfs.failFunc)")
w("//@   ensures forall f *FailFile :: allocated(f) ==> f.baseFile == old(f.baseFile) && f.vfs == old(f.vfs)")
w("")


def wrapped(kind, base_site, recv):
    if kind == "File":
        return "r0 is *FailFile && r0.(*FailFile) != nil && r0.(*FailFile).baseFile == result(%s, 0) && r0.(*FailFile).vfs == %s" % (base_site, recv)
    if kind == "VFS":
        return "r0 is *FailFS && r0.(*FailFS) != nil && r0.(*FailFS).baseFS == result(%s, 0) && r0.(*FailFS).failFunc == old(vfs.failFunc)" % base_site
    return None


def prim(recv_t, recv, base_expr, owner_fail, rows, nilguard):
    for (m, params, fn, fpf, bm, bargs, res) in rows:
        site = "%s.%s" % (base_expr, bm)
        w("//@ func (*%s).%s" % (recv_t, m))
        w("//@   event")
        if nilguard:
            w("//@   nilrecv")
        pre = "%s != nil ==> " % recv if nilguard else ""
        nres = len(res)
        errv = "r%d" % (nres - 1)
        if nilguard:
            w("//@   ensures[C12,C07] %s == nil ==> %s == fs.ErrInvalid && ncalls(vfs.fail) == 0" % (recv, errv))
        w("//@   ensures[C12] %sncalls(vfs.fail) == 1 && firstcall(vfs.fail)" % pre)
        fail_zero = ""
        if nres == 2:
            if res[0] == "File":
                fail_zero = " && r0 is *FailFile && r0.(*FailFile) == nil"
            else:
                fail_zero = " && r0 == %s" % ZERO[res[0]]
        w("//@   ensures[C12] %sfailed(vfs.fail) ==> %s == result(vfs.fail)%s && nocall(old(%s))" % (pre, errv, fail_zero, base_expr))
        guard = "%s!failed(vfs.fail)" % (pre.replace(" ==> ", " && ") if pre else "")
        w("//@   ensures[C12] %s ==> ncalls(%s) == 1" % (guard, site))
        w("//@   ensures[C12] %sonlycalls(old(%s), \"%s\")" % (pre, base_expr, bm))
        fwd = ["recv(%s) == old(%s)" % (site, base_expr)]
        for i, a in enumerate(bargs):
            fwd.append("arg(%s, %d) == %s" % (site, i, a))
        w("//@   ensures[C12] called(%s) ==> %s" % (site, " && ".join(fwd)))
        if nres == 1:
            w("//@   ensures[C12] called(%s) ==> r0 == result(%s)" % (site, site))
        else:
            wr = wrapped(res[0], site, "vfs")
            if wr:
                w("//@   ensures[C12] called(%s) ==> r1 == result(%s, 1)" % (site, site))
                w("//@   ensures[C12] called(%s) && r1 == nil ==> %s" % (site, wr))
                if res[0] == "File":
                    w("//@   ensures[C12,C07] r0 is *FailFile")
                    w("//@   ensures[C12,C07] r0.(*FailFile) != nil ==> r0.(*FailFile).baseFile != nil && r0.(*FailFile).vfs == vfs")
            else:
                w("//@   ensures[C12] called(%s) ==> r0 == result(%s, 0) && r1 == result(%s, 1)" % (site, site, site))
        asserts = ["arg0 == avfs.%s" % fn]
        for f, p in fpf.items():
            asserts.append("arg1.%s == %s" % (f, p))
        w("//@   at call vfs.fail assert[C12] %s" % " && ".join(asserts))
        w("")


prim("FailFS", "vfs", "vfs.baseFS", "vfs", VFS_PRIMS, False)

w("//@ func (*FailFS).SetUser")
w("//@   requires user != nil")
w("//@   ensures[C12] ncalls(vfs.fail) == 1 && firstcall(vfs.fail)")
w("//@   ensures[C12] failed(vfs.fail) ==> r0 == result(vfs.fail) && nocall(old(vfs.baseFS))")
w("//@   ensures[C12] !failed(vfs.fail) ==> ncalls(vfs.baseFS.SetUser) == 1 && recv(vfs.baseFS.SetUser) == old(vfs.baseFS) && arg(vfs.baseFS.SetUser, 0) == user && r0 == result(vfs.baseFS.SetUser)")
w("//@   at call vfs.fail assert[C12] arg0 == avfs.FnSetUser")
w("")

for (m, params, fn, helper, res) in VFS_COMPOSITES:
    w("//@ func (*FailFS).%s" % m)
    nres = len(res)
    errv = "r%d" % (nres - 1)
    hname = helper.split(".")[1]
    # the generic helper runs with the wrapper as its file system: every primitive it uses is consulted
    w("//@   ensures[C12] nocall(old(vfs.baseFS))")
    if fn:
        w("//@   ensures[C12] ncalls(vfs.fail) == 1 && firstcall(vfs.fail)")
        fail_zero = " && r0 == %s" % ZERO[res[0]] if nres == 2 else ""
        w("//@   ensures[C12] failed(vfs.fail) ==> %s == result(vfs.fail)%s && ncalls(%s) == 0" % (errv, fail_zero, helper))
        w("//@   ensures[C12] !failed(vfs.fail) ==> ncalls(%s) == 1" % helper)
        w("//@   at call vfs.fail assert[C12] arg0 == avfs.%s && arg1.Path == %s" % (fn, params[0]))
    else:
        w("//@   ensures[C12] ncalls(%s) == 1" % helper)
    rr = " && ".join("r%d == result(%s, %d)" % (i, helper, i) for i in range(nres))
    w("//@   ensures[C12] called(%s) ==> %s" % (helper, rr))
    aa = ["arg0 == vfs"] + ["arg%d == %s" % (i + 1, p) for i, p in enumerate(params)]
    w("//@   at call %s assert[C12] %s" % (helper, " && ".join(aa)))
    w("")

for (m, params, bm) in VFS_FORWARD:
    if bm is None:
        continue
    site = "vfs.baseFS.%s" % bm
    w("//@ func (*FailFS).%s" % m)
    conj = ["ncalls(%s) == 1" % site, "recv(%s) == old(vfs.baseFS)" % site, "r0 == result(%s)" % site]
    for i, a in enumerate(params):
        conj.append("arg(%s, %d) == %s" % (site, i, a))
    w("//@   ensures[C12] %s" % " && ".join(conj))
    w("")

w("//@ func (*FailFS).OSType")
w("//@   ensures[C12,C17] r0 == vfs.baseFS.OSType()")
w("//@ func (*FailFS).Name")
w("//@   ensures[C12] r0 == vfs.baseFS.Name()")
w("//@ func (*FailFS).PathSeparator")
w("//@   ensures[C12,C17] r0 == vfs.baseFS.PathSeparator()")
w("//@ func (*FailFS).Open")
w("//@   ensures[C12] ncalls(vfs.OpenFile) == 1 && recv(vfs.OpenFile) == vfs && arg(vfs.OpenFile, 0) == name && arg(vfs.OpenFile, 1) == 0 && r0 == result(vfs.OpenFile, 0) && r1 == result(vfs.OpenFile, 1) && nocall(old(vfs.baseFS))")
w("")
w("//@ func New")
w("//@   requires baseFS != nil")
w("//@   ensures[C12] fresh(r0) && r0.baseFS == baseFS && r0.failFunc != nil")
w("//@   modifies nothing")
w("//@ func (*FailFS).SetFailFunc")
w("//@   ensures[C12] (ff != nil ==> vfs.failFunc == ff) && vfs.failFunc != nil && vfs.baseFS == old(vfs.baseFS) && r0 == nil")
w("//@   modifies vfs.failFunc")
w("//@ func OkFunc")
w("//@   ensures[C12] r0 == nil")
w("//@   modifies nothing")
w("")

prim("FailFile", "f", "f.baseFile", "f.vfs", FILE_PRIMS, True)

w("//@ func (*FailFile).WriteString")
w("//@   nilrecv")
w("//@   ensures[C12] f != nil ==> ncalls(f.Write) == 1 && recv(f.Write) == f && r0 == result(f.Write, 0) && r1 == result(f.Write, 1) && nocall(old(f.baseFile))")
w("")

# ReadOnlyFunc: which ids are refused
MUT = ["FnChmod", "FnChown", "FnChtimes", "FnCreateTemp", "FnFileChmod", "FnFileChown", "FnFileSync", "FnFileTruncate", "FnFileWrite",
       "FnFileWriteAt", "FnLchown", "FnLink", "FnMkdir", "FnMkdirAll", "FnMkdirTemp", "FnRemove", "FnRemoveAll", "FnRename", "FnSymlink",
       "FnTruncate"]
w("//@ func ReadOnlyFunc")
w("//@   requires fp != nil")
for f in MUT:
    w("//@   ensures[C12] fn == avfs.%s ==> r0 != nil" % f)
w("//@   ensures[C12] fn == avfs.FnOpenFile ==> (r0 == nil <==> fp.Flag == 0)")
w("//@   modifies nothing")
w("")

open("/repo/vfs/failfs/zz_contracts_verif.go", "w").write("\n".join(out) + "\n")
import subprocess
subprocess.run(["gofmt", "-w", [l for l in open(__file__).read().split(chr(34)) if l.startswith("/repo/vfs/") and l.endswith("zz_contracts_verif.go")][0]])
print("generated", len(out), "lines")
