#!/bin/sh
# Validates that the evidence files in /verif come from clean runs on the unchanged tree
# (discharged == obligations, no violations, no tool errors) and that MANIFEST.json is schema-valid.
cd "$(dirname "$0")/.."
python3-vt - <<'PY'
import json,glob,sys,jsonschema
bad=0
for f in sorted(glob.glob('evidence/*.json')):
    d=json.load(open(f)); c=d['coverage']
    if c['obligations']!=c['discharged'] or d.get('violations') or (c.get('tool_errors') or []):
        print("BAD evidence", f); bad+=1
    jsonschema.validate(d, json.load(open('/root/.vp/EVIDENCE.schema.json')))
jsonschema.validate(json.load(open('MANIFEST.json')), json.load(open('/root/.vp/MANIFEST.schema.json')))
print("precommit:", "FAILED" if bad else "ok")
sys.exit(1 if bad else 0)
PY
