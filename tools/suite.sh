#!/bin/sh
# Runs the repository's pinned test suite (guard tag off) and prints the failing tests, sorted.
# usage: tools/suite.sh [repo-dir]
export GOFLAGS=-mod=mod GOPROXY=off GOSUMDB=off GOTOOLCHAIN=local
cd "${1:-/repo}" && go test -json -vet=off -count=1 -timeout 25m ./... 2>&1 | python3 -c '
import sys,json
fails=set(); passes=0
for l in sys.stdin:
    try: e=json.loads(l)
    except Exception: continue
    if e.get("Action")=="fail" and e.get("Test"): fails.add(e["Package"]+"::"+e["Test"])
    if e.get("Action")=="pass" and e.get("Test"): passes+=1
print("passed",passes)
for f in sorted(fails): print("FAIL",f)
'
